use akd_verif::engine::{install_panic_hook, start_watchdog, Engine, Tier};
use akd_verif::props;

fn usage() -> ! {
    eprintln!("usage: check <C01..C20> [--tier quick|thorough] [--replay FILE]\n       env: VERIF_SEED, VERIF_TIER, VERIF_ROOT, VERIF_WORKERS");
    std::process::exit(2)
}

fn main() {
    let args: Vec<String> = std::env::args().skip(1).collect();
    if args.is_empty() {
        usage();
    }
    let id = args[0].clone();
    let mut tier = match std::env::var("VERIF_TIER").as_deref() {
        Ok("thorough") => Tier::Thorough,
        _ => Tier::Quick,
    };
    let mut replay_path = None;
    let mut i = 1;
    while i < args.len() {
        match args[i].as_str() {
            "--tier" => {
                i += 1;
                tier = match args.get(i).map(|s| s.as_str()) {
                    Some("quick") => Tier::Quick,
                    Some("thorough") => Tier::Thorough,
                    _ => usage(),
                };
            }
            "--emit-corpus" => {
                i += 1;
                let dir = args.get(i).cloned().unwrap_or_else(|| usage());
                std::fs::create_dir_all(&dir).ok();
                if id == "C19" {
                    for (k, b) in akd_verif::fuzz::c19_seed_corpus().into_iter().enumerate() {
                        std::fs::write(format!("{dir}/seed-{k}"), b).unwrap();
                    }
                }
                return;
            }
            "--replay" => {
                i += 1;
                replay_path = Some(args.get(i).cloned().unwrap_or_else(|| usage()));
            }
            _ => usage(),
        }
        i += 1;
    }
    let seed: u64 = std::env::var("VERIF_SEED").ok().and_then(|s| s.trim().parse::<i128>().ok()).map(|v| v as u64).unwrap_or(0);
    let root = std::env::var("VERIF_ROOT").unwrap_or_else(|_| "/verif".into());
    let replay = replay_path.map(|p| {
        let txt = std::fs::read_to_string(&p).unwrap_or_else(|e| {
            eprintln!("cannot read {p}: {e}");
            std::process::exit(2)
        });
        let v: serde_json::Value = serde_json::from_str(&txt).unwrap_or_else(|e| {
            eprintln!("cannot parse {p}: {e}");
            std::process::exit(2)
        });
        std::env::set_var("VERIF_REPLAY_PATH", &p);
        (v["part"].as_str().unwrap_or("").to_string(), v["case"].clone())
    });
    install_panic_hook();
    start_watchdog(match tier {
        Tier::Quick => 3600,
        Tier::Thorough => 6 * 3600,
    });
    let mut eng = Engine::new(&id, tier, seed, replay, &root);
    if !props::run(&id, &mut eng) {
        eprintln!("unknown property {id}");
        std::process::exit(2);
    }
    let code = eng.finish();
    std::process::exit(code);
}
