//! Independent reference model of the directory commitment (DESIGN §2.2).
//!
//! The two hashing schemes are re-implemented here directly on `blake3` from the
//! specification text in `akd_core/src/lib.rs`; the trie hash is a from-scratch recursion
//! over the sorted leaf list. Only the ECVRF core (prove + output truncation) is shared with akd.
use akd::ecvrf::{VRFKeyStorage, VRFPrivateKey, VrfError};
use akd::{Configuration, ExampleLabel, ExperimentalConfiguration, WhatsAppV1Configuration};
use std::collections::{BTreeMap, HashMap};
use std::convert::TryFrom;

pub type D = [u8; 32];

#[derive(Clone, Copy, PartialEq, Eq, Debug, Hash, serde::Serialize, serde::Deserialize)]
pub enum Cfg {
    Wa,
    Exp,
}
pub const DOMAIN: &[u8] = b"ExampleLabel";

/// ties an akd `Configuration` type to the model's `Cfg`
pub trait Tcfg: Configuration {
    const CFG: Cfg;
}
impl Tcfg for WhatsAppV1Configuration {
    const CFG: Cfg = Cfg::Wa;
}
impl Tcfg for ExperimentalConfiguration<ExampleLabel> {
    const CFG: Cfg = Cfg::Exp;
}
pub type Wa = WhatsAppV1Configuration;
pub type Exp = ExperimentalConfiguration<ExampleLabel>;

pub fn h(c: Cfg, parts: &[&[u8]]) -> D {
    let mut hs = blake3::Hasher::new();
    if c == Cfg::Exp {
        hs.update(DOMAIN);
    }
    for p in parts {
        hs.update(p);
    }
    hs.finalize().into()
}
pub fn i2osp(b: &[u8]) -> Vec<u8> {
    let mut v = (b.len() as u64).to_be_bytes().to_vec();
    v.extend_from_slice(b);
    v
}
pub fn label_bytes(len: u32, val: &[u8; 32]) -> Vec<u8> {
    let mut v = len.to_be_bytes().to_vec();
    v.extend_from_slice(val);
    v
}
pub fn label_value(c: Cfg, len: u32, val: &[u8; 32]) -> Vec<u8> {
    let b = label_bytes(len, val);
    match c {
        Cfg::Wa => h(c, &[&b]).to_vec(),
        Cfg::Exp => b,
    }
}
pub fn empty_label(c: Cfg) -> (u32, [u8; 32]) {
    match c {
        Cfg::Wa => (0, [1u8; 32]),
        Cfg::Exp => {
            let mut v = [0u8; 32];
            v[0] = 1;
            (0, v)
        }
    }
}
pub fn empty_node_hash(c: Cfg) -> D {
    match c {
        Cfg::Wa => {
            let (l, v) = empty_label(c);
            h(c, &[&h(c, &[&[0u8]]), &label_value(c, l, &v)])
        }
        Cfg::Exp => [0u8; 32],
    }
}
pub fn empty_root_value(c: Cfg) -> D {
    match c {
        Cfg::Wa => h(c, &[&[0u8]]),
        Cfg::Exp => [0u8; 32],
    }
}
pub fn stale_value(c: Cfg) -> D {
    match c {
        Cfg::Wa => h(c, &[&[0u8]]),
        Cfg::Exp => [0u8; 32],
    }
}
pub fn parent(c: Cfg, lv: &D, ll: &[u8], rv: &D, rl: &[u8]) -> D {
    match c {
        Cfg::Wa => {
            let a = h(c, &[lv, ll]);
            let b = h(c, &[rv, rl]);
            h(c, &[&a, &b])
        }
        Cfg::Exp => h(c, &[lv, ll, rv, rl]),
    }
}
pub fn root_hash(c: Cfg, root_val: &D) -> D {
    match c {
        Cfg::Wa => h(c, &[root_val, &label_value(c, 0, &[0u8; 32])]),
        Cfg::Exp => *root_val,
    }
}
pub fn leaf_with_epoch(c: Cfg, commitment: &D, epoch: u64) -> D {
    h(c, &[commitment, &epoch.to_be_bytes()])
}
pub fn commitment_nonce(c: Cfg, ckey: &D, nl: &[u8; 32], version: u64, value: &[u8]) -> D {
    let lb = label_bytes(256, nl);
    match c {
        Cfg::Wa => h(c, &[ckey, &lb, &version.to_be_bytes(), &i2osp(value)]),
        Cfg::Exp => h(c, &[ckey, &lb]),
    }
}
pub fn commitment(c: Cfg, ckey: &D, nl: &[u8; 32], version: u64, value: &[u8]) -> D {
    let nonce = commitment_nonce(c, ckey, nl, version, value);
    h(c, &[&i2osp(value), &i2osp(&nonce)])
}
pub fn vrf_input(c: Cfg, label: &[u8], fresh: bool, version: u64) -> D {
    h(c, &[&i2osp(label), &[fresh as u8], &version.to_be_bytes()])
}

pub fn bit(v: &[u8; 32], i: u32) -> bool {
    (v[(i / 8) as usize] >> (7 - i % 8)) & 1 == 1
}
pub fn prefix(v: &[u8; 32], len: u32) -> [u8; 32] {
    let mut o = [0u8; 32];
    for i in 0..len.min(256) {
        if bit(v, i) {
            o[(i / 8) as usize] |= 1 << (7 - i % 8);
        }
    }
    o
}

/// A node of the canonical compressed trie (model side).
#[derive(Clone, Debug)]
pub struct MNode {
    pub len: u32,
    pub val: [u8; 32],
    /// value as seen by the parent (leaves: H(commitment, epoch))
    pub hash: D,
    pub kids: Option<Box<(MNode, MNode)>>,
}

/// subtree over sorted leaves (all share the first `depth` bits)
fn subtree(c: Cfg, leaves: &[([u8; 32], D)], depth: u32) -> MNode {
    if leaves.len() == 1 {
        return MNode { len: 256, val: leaves[0].0, hash: leaves[0].1, kids: None };
    }
    let mut d = depth;
    loop {
        let b0 = bit(&leaves[0].0, d);
        if leaves.iter().any(|l| bit(&l.0, d) != b0) {
            break;
        }
        d += 1;
    }
    let split = leaves.iter().position(|l| bit(&l.0, d)).unwrap();
    let l = subtree(c, &leaves[..split], d + 1);
    let r = subtree(c, &leaves[split..], d + 1);
    let hash = parent(c, &l.hash, &label_value(c, l.len, &l.val), &r.hash, &label_value(c, r.len, &r.val));
    MNode { len: d, val: prefix(&leaves[0].0, d), hash, kids: Some(Box::new((l, r))) }
}

/// Full model tree: root value + optional children (None = empty side).
pub struct MTree {
    pub root_val: D,
    pub left: Option<MNode>,
    pub right: Option<MNode>,
}
pub fn model_tree(c: Cfg, leaves: &BTreeMap<[u8; 32], (D, u64)>) -> MTree {
    if leaves.is_empty() {
        return MTree { root_val: empty_root_value(c), left: None, right: None };
    }
    let all: Vec<([u8; 32], D)> = leaves.iter().map(|(k, (cm, ep))| (*k, leaf_with_epoch(c, cm, *ep))).collect();
    let split = all.iter().position(|l| bit(&l.0, 0)).unwrap_or(all.len());
    let mk = |s: &[([u8; 32], D)]| if s.is_empty() { None } else { Some(subtree(c, s, 1)) };
    let (left, right) = (mk(&all[..split]), mk(&all[split..]));
    let side = |n: &Option<MNode>| match n {
        None => {
            let (l, v) = empty_label(c);
            (label_value(c, l, &v), empty_node_hash(c))
        }
        Some(n) => (label_value(c, n.len, &n.val), n.hash),
    };
    let (ll, lh) = side(&left);
    let (rl, rh) = side(&right);
    MTree { root_val: parent(c, &lh, &ll, &rh, &rl), left, right }
}
pub fn model_root(c: Cfg, leaves: &BTreeMap<[u8; 32], (D, u64)>) -> D {
    root_hash(c, &model_tree(c, leaves).root_val)
}

/// RFC 9381 proof_to_hash for ECVRF-EDWARDS25519-SHA512-TAI, truncated to 32 bytes:
/// SHA512(suite=0x03 || 0x03 || compress(8 * Gamma) || 0x00)[..32]. Independent of akd's `Output`.
pub fn node_label_from_proof_bytes(proof: &[u8]) -> Option<[u8; 32]> {
    use sha2::Digest;
    if proof.len() != 80 {
        return None;
    }
    let gamma = curve25519_dalek::edwards::CompressedEdwardsY::from_slice(&proof[..32]).ok()?.decompress()?;
    let mut hs = sha2::Sha512::new();
    hs.update([0x03u8, 0x03u8]);
    hs.update(gamma.mul_by_cofactor().compress().as_bytes());
    hs.update([0x00u8]);
    let out = hs.finalize();
    let mut r = [0u8; 32];
    r.copy_from_slice(&out[..32]);
    Some(r)
}

// ---------------------------------------------------------------------------------------
// VRF key storage with an arbitrary key

#[derive(Clone)]
pub struct KeyVrf(pub Vec<u8>);
#[async_trait::async_trait]
impl VRFKeyStorage for KeyVrf {
    async fn retrieve(&self) -> Result<Vec<u8>, VrfError> {
        Ok(self.0.clone())
    }
}
pub const HARD_KEY_HEX: &str = "c9afa9d845ba75166b5c215767b1d6934e50c3db36e89b127b8a622b120f6721";
pub fn hard_key() -> Vec<u8> {
    hex::decode(HARD_KEY_HEX).unwrap()
}
/// key bytes for a small key index (0 = the repository's hard-coded key)
pub fn key_bytes(idx: u8) -> Vec<u8> {
    if idx == 0 {
        hard_key()
    } else {
        let mut k = blake3::hash(&[b'k', idx]).as_bytes().to_vec();
        k[0] ^= idx;
        k
    }
}

pub fn now_ready<F: std::future::Future>(f: F) -> F::Output {
    use std::task::{Context, Poll, RawWaker, RawWakerVTable, Waker};
    fn noop(_: *const ()) {}
    fn clone(_: *const ()) -> RawWaker {
        RawWaker::new(std::ptr::null(), &VT)
    }
    static VT: RawWakerVTable = RawWakerVTable::new(clone, noop, noop, noop);
    let w = unsafe { Waker::from_raw(RawWaker::new(std::ptr::null(), &VT)) };
    let mut cx = Context::from_waker(&w);
    let mut f = Box::pin(f);
    match f.as_mut().poll(&mut cx) {
        Poll::Ready(v) => v,
        Poll::Pending => panic!("future unexpectedly pending"),
    }
}

// ---------------------------------------------------------------------------------------

/// One version of a label in the model
#[derive(Clone, Debug, PartialEq, Eq)]
pub struct MVersion {
    pub version: u64,
    pub value: Vec<u8>,
    pub epoch: u64,
}

pub struct Model {
    pub c: Cfg,
    pub sk: VRFPrivateKey,
    pub raw_key: Vec<u8>,
    pub ckey: D,
    pub epoch: u64,
    pub users: HashMap<Vec<u8>, Vec<MVersion>>,
    /// leaf label -> (commitment, insertion epoch)
    pub leaves: BTreeMap<[u8; 32], (D, u64)>,
    pub roots: Vec<D>,
    memo: HashMap<(Vec<u8>, bool, u64), [u8; 32]>,
}

impl Model {
    pub fn new(c: Cfg, raw: &[u8]) -> Self {
        let m = BTreeMap::new();
        Model {
            c,
            sk: VRFPrivateKey::try_from(raw).expect("vrf key"),
            raw_key: raw.to_vec(),
            ckey: h(c, &[raw]),
            epoch: 0,
            users: HashMap::new(),
            roots: vec![model_root(c, &m)],
            leaves: m,
            memo: HashMap::new(),
        }
    }
    /// node label = first 32 bytes of ECVRF output on H(I2OSP(len)||label||freshness||version)
    pub fn node_label(&mut self, label: &[u8], fresh: bool, version: u64) -> [u8; 32] {
        if let Some(v) = self.memo.get(&(label.to_vec(), fresh, version)) {
            return *v;
        }
        let alpha = vrf_input(self.c, label, fresh, version);
        let proof = self.sk.prove(&alpha);
        let nl = node_label_from_proof_bytes(&proof.to_bytes()).expect("own proof decodes");
        self.memo.insert((label.to_vec(), fresh, version), nl);
        nl
    }
    pub fn publish(&mut self, batch: &[(Vec<u8>, Vec<u8>)]) -> Result<(u64, D), ()> {
        let mut seen = std::collections::HashSet::new();
        for (l, _) in batch {
            if !seen.insert(l.clone()) {
                return Err(());
            }
        }
        let next = self.epoch + 1;
        let mut new_leaves = vec![];
        let mut new_states = vec![];
        for (l, v) in batch {
            match self.users.get(l).and_then(|s| s.last()).cloned() {
                None => {
                    let nl = self.node_label(l, true, 1);
                    new_leaves.push((nl, commitment(self.c, &self.ckey, &nl, 1, v)));
                    new_states.push((l.clone(), 1, v.clone()));
                }
                Some(last) => {
                    if &last.value == v {
                        continue;
                    }
                    let st = self.node_label(l, false, last.version);
                    new_leaves.push((st, stale_value(self.c)));
                    let nl = self.node_label(l, true, last.version + 1);
                    new_leaves.push((nl, commitment(self.c, &self.ckey, &nl, last.version + 1, v)));
                    new_states.push((l.clone(), last.version + 1, v.clone()));
                }
            }
        }
        if new_leaves.is_empty() {
            return Ok((self.epoch, self.roots[self.epoch as usize]));
        }
        self.epoch = next;
        for (nl, cm) in new_leaves {
            assert!(self.leaves.insert(nl, (cm, next)).is_none(), "model: leaf label collision");
        }
        for (l, ver, v) in new_states {
            self.users.entry(l).or_default().push(MVersion { version: ver, value: v, epoch: next });
        }
        let r = model_root(self.c, &self.leaves);
        self.roots.push(r);
        Ok((next, r))
    }
    /// versions of `label` existing at epoch `e`, oldest first
    pub fn versions_at(&self, label: &[u8], e: u64) -> Vec<MVersion> {
        self.users.get(label).map(|v| v.iter().filter(|x| x.epoch <= e).cloned().collect()).unwrap_or_default()
    }
    pub fn latest_at(&self, label: &[u8], e: u64) -> Option<MVersion> {
        self.versions_at(label, e).pop()
    }
    /// leaves present at epoch e
    pub fn leaves_at(&self, e: u64) -> BTreeMap<[u8; 32], (D, u64)> {
        self.leaves.iter().filter(|(_, (_, ep))| *ep <= e).map(|(k, v)| (*k, *v)).collect()
    }
}
