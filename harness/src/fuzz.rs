//! Entry points for the cargo-fuzz targets (harness/fuzz). libFuzzer's bytes are decoded by hand
//! (a cursor that yields zeros once exhausted - no rejection loops) into the same case types the
//! proptest parts use, and judged by the same check functions. C19 additionally has a pure
//! byte-level mode: arbitrary bytes are fed to every protobuf decoder and, if they decode and
//! verify in a fixed golden context, must verify to the golden result.
//! A failure is saved as a replay file for `check --replay` before the process aborts.
use crate::dirx::*;
use crate::engine::*;
use crate::gen::*;
use crate::model::*;
use crate::props::{c05, c09, c17, c19};
use akd::proto::specs::types as pb;
use akd::{AkdLabel, AppendOnlyProof, HistoryProof, LookupProof, VerifyResult};
use protobuf::Message;
use serde::Serialize;
use std::convert::TryInto;

pub struct Cur<'a> {
    d: &'a [u8],
    i: usize,
}
impl<'a> Cur<'a> {
    pub fn new(d: &'a [u8]) -> Self {
        Cur { d, i: 0 }
    }
    pub fn u8(&mut self) -> u8 {
        let v = self.d.get(self.i).copied().unwrap_or(0);
        self.i += 1;
        v
    }
    pub fn u16(&mut self) -> u16 {
        u16::from_le_bytes([self.u8(), self.u8()])
    }
    pub fn u64(&mut self) -> u64 {
        let mut b = [0u8; 8];
        for x in b.iter_mut() {
            *x = self.u8();
        }
        u64::from_le_bytes(b)
    }
    pub fn bytes(&mut self, n: usize) -> Vec<u8> {
        (0..n).map(|_| self.u8()).collect()
    }
    pub fn rest(&mut self) -> Vec<u8> {
        let r = self.d.get(self.i..).unwrap_or(&[]).to_vec();
        self.i = self.d.len();
        r
    }
}

fn report<C: Serialize>(id: &str, part: &str, case: &C, fl: Fail) -> ! {
    let root = std::env::var("VERIF_ROOT").unwrap_or_else(|_| "/verif".into());
    let body = serde_json::json!({"property": id, "part": part, "signature": fl.sig, "message": fl.msg, "case": serde_json::to_value(case).unwrap_or_default()});
    let txt = serde_json::to_string_pretty(&body).unwrap();
    let dir = format!("{root}/replays/{id}");
    let _ = std::fs::create_dir_all(&dir);
    let path = format!("{dir}/{part}-fuzz-{:016x}.json", fp(&txt));
    let _ = std::fs::write(&path, txt);
    println!("VIOLATION property={id} replay={path}");
    println!("  part={part} signature={} :: {}", fl.sig, fl.msg.replace('\n', " "));
    std::process::abort();
}
fn init(id: &str) {
    static INIT: std::sync::Once = std::sync::Once::new();
    INIT.call_once(|| {
        install_panic_hook();
        init_known(id, &std::env::var("VERIF_ROOT").unwrap_or_else(|_| "/verif".into()));
    });
}
fn judge<C: Serialize>(id: &str, part: &str, case: &C, f: impl FnOnce(&C, &mut Ctx) -> R) {
    init(id);
    let mut ctx = Ctx { counting: true, ..Default::default() };
    match guarded(|| f(case, &mut ctx)) {
        Ok(()) => {}
        Err(fl) if known_hit(&fl.sig) => {}
        Err(fl) => report(id, part, case, fl),
    }
}

fn pat(c: &mut Cur) -> c17::Pat {
    match c.u8() % 5 {
        0 => c17::Pat::Ones,
        1 => c17::Pat::Zeros,
        2 => c17::Pat::Alt,
        3 => c17::Pat::Rand(c.bytes(32)),
        _ => c17::Pat::Single(c.u16() % 257),
    }
}
fn leafset(c: &mut Cur, max_derived: usize) -> c05::LeafSet {
    let nb = 1 + (c.u8() % 3) as usize;
    let bases = (0..nb).map(|_| c.bytes(32)).collect();
    let nd = c.u8() as usize % (max_derived + 1);
    let derived = (0..nd)
        .map(|_| c05::Derived {
            base: c.u16(),
            pos: c.u16() % 256,
            tail: match c.u8() % 4 {
                0 => c05::Tail::Same,
                1 => c05::Tail::Zeros,
                2 => c05::Tail::Ones,
                _ => c05::Tail::Rand(c.bytes(32)),
            },
        })
        .collect();
    let epochs = 1 + c.u8() % 3;
    let na = 1 + (c.u8() % 3) as usize;
    c05::LeafSet { bases, derived, epochs, assign: (0..na).map(|_| c.u16()).collect() }
}

// ------------------------------------------------------------------ C19 golden context
pub struct Golden {
    pub pk: Vec<u8>,
    pub root: D,
    pub epoch: u64,
    pub label: Vec<u8>,
    pub lookup: LookupProof,
    pub lookup_res: VerifyResult,
    pub history: HistoryProof,
    pub history_res: Vec<VerifyResult>,
    pub audit: AppendOnlyProof,
    pub hashes: Vec<D>,
}
pub fn golden<TC: Tcfg>() -> Golden {
    block_on(async {
        let key = hard_key();
        let mut sys = Sys::<TC, _>::new(manager(akd::storage::memory::AsyncInMemoryDatabase::new(), CacheKind::None), 0, ParKind::Disabled).await.unwrap();
        let label = b"golden-user".to_vec();
        for (i, v) in [b"v1".to_vec(), b"v2".to_vec(), b"v3".to_vec()].iter().enumerate() {
            let batch = vec![(label.clone(), v.clone()), (format!("other-{i}").into_bytes(), b"x".to_vec())];
            sys.publish(&batch, i).await.unwrap();
        }
        let e = sys.m.epoch;
        let root = sys.m.roots[e as usize];
        let pk = public_key(&key);
        let (lookup, _) = sys.dir.lookup(AkdLabel(label.clone())).await.unwrap();
        let (history, _) = sys.dir.key_history(&AkdLabel(label.clone()), HP::Complete.to()).await.unwrap();
        let audit = sys.dir.audit(0, e).await.unwrap();
        Golden {
            lookup_res: verify_lookup::<TC>(&pk, root, e, &label, lookup.clone()).unwrap(),
            history_res: verify_history::<TC>(&pk, root, e, &label, history.clone(), HP::Complete.to(), false).unwrap(),
            pk,
            root,
            epoch: e,
            label,
            lookup,
            history,
            audit,
            hashes: sys.m.roots.clone(),
        }
    })
}
/// seed corpus for fuzz_c19: golden encodings behind their mode byte
pub fn c19_seed_corpus() -> Vec<Vec<u8>> {
    let g = golden::<Wa>();
    let enc = |m: u8, b: Vec<u8>| [vec![m], b].concat();
    vec![
        enc(0, pb::LookupProof::from(&g.lookup).write_to_bytes().unwrap()),
        enc(1, pb::HistoryProof::from(&g.history).write_to_bytes().unwrap()),
        enc(2, pb::AppendOnlyProof::from(&g.audit).write_to_bytes().unwrap()),
        enc(3, pb::NonMembershipProof::from(&g.lookup.freshness_proof).write_to_bytes().unwrap()),
        enc(4, vec![1, 0, 5, 9, 0, 33, 7, 3, 200, 1]),
    ]
}
thread_local! {
    static GOLD_WA: Golden = golden::<Wa>();
}
pub fn c19_bytes_judge(data: &[u8]) -> R {
    let mut c = Cur::new(data);
    let mode = c.u8() % 6;
    let body = c.rest();
    guarded(|| {
        GOLD_WA.with(|g| {
            match mode {
                0 => {
                    if let Ok(m) = pb::LookupProof::parse_from_bytes(&body) {
                        let dec: Result<LookupProof, _> = (&m).try_into();
                        if let Ok(p) = dec {
                            let again: Option<LookupProof> = pb::LookupProof::from(&p).write_to_bytes().ok().and_then(|b| pb::LookupProof::parse_from_bytes(&b).ok()).and_then(|m| (&m).try_into().ok());
                            crate::ensure!(again.as_ref() == Some(&p), "decode-not-idempotent", "lookup proof decoding is not idempotent under re-encoding");
                            if let Ok(r) = verify_lookup::<Wa>(&g.pk, g.root, g.epoch, &g.label, p) {
                                crate::ensure!(r == g.lookup_res, "corrupted-lookup-verifies-differently", "bytes decode to a lookup proof that verifies to {r:?} in the golden context (honest result {:?})", g.lookup_res);
                            }
                        }
                    }
                }
                1 => {
                    if let Ok(m) = pb::HistoryProof::parse_from_bytes(&body) {
                        let dec: Result<HistoryProof, _> = (&m).try_into();
                        if let Ok(p) = dec {
                            let again: Option<HistoryProof> = pb::HistoryProof::from(&p).write_to_bytes().ok().and_then(|b| pb::HistoryProof::parse_from_bytes(&b).ok()).and_then(|m| (&m).try_into().ok());
                            crate::ensure!(again.as_ref() == Some(&p), "decode-not-idempotent", "history proof decoding is not idempotent under re-encoding");
                            if let Ok(r) = verify_history::<Wa>(&g.pk, g.root, g.epoch, &g.label, p, HP::Complete.to(), false) {
                                crate::ensure!(r == g.history_res, "corrupted-history-verifies-differently", "bytes decode to a history proof that verifies to {r:?} in the golden context");
                            }
                        }
                    }
                }
                2 => {
                    if let Ok(m) = pb::AppendOnlyProof::parse_from_bytes(&body) {
                        let dec: Result<AppendOnlyProof, _> = (&m).try_into();
                        if let Ok(p) = dec {
                            if p.proofs.iter().map(|x| x.inserted.len() + x.unchanged_nodes.len()).sum::<usize>() <= 64 {
                                let _ = block_on(akd::auditor::audit_verify::<Wa>(g.hashes.clone(), p));
                            }
                        }
                    }
                }
                3 => {
                    let _ = pb::NonMembershipProof::parse_from_bytes(&body).ok().map(|m| akd::NonMembershipProof::try_from(&m));
                    let _ = pb::MembershipProof::parse_from_bytes(&body).ok().map(|m| akd::MembershipProof::try_from(&m));
                    let _ = pb::SiblingProof::parse_from_bytes(&body).ok().map(|m| akd::SiblingProof::try_from(&m));
                    let _ = pb::AzksElement::parse_from_bytes(&body).ok().map(|m| akd::AzksElement::try_from(&m));
                    let _ = pb::NodeLabel::parse_from_bytes(&body).ok().map(|m| akd::NodeLabel::try_from(&m));
                    let _ = pb::UpdateProof::parse_from_bytes(&body).ok().map(|m| akd::UpdateProof::try_from(&m));
                    let _ = pb::SingleAppendOnlyProof::parse_from_bytes(&body).ok().map(|m| akd::SingleAppendOnlyProof::try_from(&m));
                    if let Ok(s) = std::str::from_utf8(&body) {
                        if let Ok(n) = akd::local_auditing::AuditBlobName::try_from(s) {
                            crate::ensure!(akd::local_auditing::AuditBlobName::try_from(n.to_string().as_str()).ok() == Some(n), "blobname-roundtrip", "blob name does not round-trip");
                        }
                    }
                }
                _ => {
                    // structured: a sequence of wire-level mutations applied to the golden lookup / history encodings
                    let mut c = Cur::new(&body);
                    let which = c.u8() % 2;
                    let n = 1 + c.u8() % 4;
                    let (mt, mut enc) = if which == 0 { (c19::MT::LookupProof, pb::LookupProof::from(&g.lookup).write_to_bytes().unwrap()) } else { (c19::MT::HistoryProof, pb::HistoryProof::from(&g.history).write_to_bytes().unwrap()) };
                    for _ in 0..n {
                        let m = match c.u8() % 7 {
                            0 => c19::Mutn::DeleteField(c.u16()),
                            1 => c19::Mutn::DuplicateField(c.u16()),
                            2 => c19::Mutn::ResizeBytes(c.u16(), c.u8()),
                            3 => c19::Mutn::SetVarint(c.u16(), c.u64()),
                            4 => c19::Mutn::FlipPayloadBit(c.u16(), c.u16()),
                            5 => c19::Mutn::Truncate(c.u16()),
                            _ => c19::Mutn::FlipBit(c.u64() as u32),
                        };
                        enc = c19::apply_mutation(mt, &enc, &m);
                    }
                    if which == 0 {
                        if let Some(p) = pb::LookupProof::parse_from_bytes(&enc).ok().and_then(|m| LookupProof::try_from(&m).ok()) {
                            if let Ok(r) = verify_lookup::<Wa>(&g.pk, g.root, g.epoch, &g.label, p) {
                                crate::ensure!(r == g.lookup_res, "corrupted-lookup-verifies-differently", "mutated golden lookup encoding verifies to {r:?}");
                            }
                        }
                    } else if let Some(p) = pb::HistoryProof::parse_from_bytes(&enc).ok().and_then(|m| HistoryProof::try_from(&m).ok()) {
                        if let Ok(r) = verify_history::<Wa>(&g.pk, g.root, g.epoch, &g.label, p, HP::Complete.to(), false) {
                            crate::ensure!(r == g.history_res, "corrupted-history-verifies-differently", "mutated golden history encoding verifies to {r:?}");
                        }
                    }
                }
            }
            Ok(())
        })
    })
}

fn c19_bytes(data: &[u8]) {
    init("C19");
    match c19_bytes_judge(data) {
        Ok(()) => {}
        Err(fl) if known_hit(&fl.sig) => {}
        Err(fl) => report("C19", "fuzz_bytes", &serde_json::json!({"bytes": hex::encode(data)}), fl),
    }
}

pub fn fuzz_one(id: &str, data: &[u8]) {
    let mut c = Cur::new(data);
    match id {
        "C05" => {
            let set = leafset(&mut c, 21);
            let nf = (c.u8() % 7) as usize;
            let flips = (0..nf).map(|_| c.u16() % 256).collect();
            let nr = (c.u8() % 3) as usize;
            let randq = (0..nr).map(|_| c.bytes(32)).collect();
            let nm = 1 + (c.u8() % 5) as usize;
            let case = c05::Case { set, flips, randq, muts: (0..nm).map(|_| c.u16()).collect() };
            judge(id, "sets", &case, c05::check);
        }
        "C09" => {
            let set = leafset(&mut c, 14);
            let nf = (c.u8() % 5) as usize;
            let new_flips = (0..nf).map(|_| (c.u16(), c.u16() % 256)).collect();
            let nr = (c.u8() % 3) as usize;
            let new_rand = (0..nr).map(|_| c.bytes(32)).collect();
            let np = 4 + (c.u8() % 8) as usize;
            let case = c09::Case { set, new_flips, new_rand, picks: (0..np).map(|_| c.u16()).collect() };
            judge(id, "transitions", &case, c09::check);
        }
        "C17" => {
            if c.u8() % 2 == 0 {
                let case = c17::PairCase { pa: pat(&mut c), len_a: c.u16() % 257, shared: c.u16() % 257, len_b: c.u16() % 257, tail: pat(&mut c) };
                judge(id, "long_pairs", &case, c17::check_pair_case);
            } else {
                let common = pat(&mut c);
                let common_len = c.u16() % 257;
                let len = if c.u8() % 3 != 0 { 256 } else { c.u16() % 257 };
                let nt = 1 + (c.u8() % 11) as usize;
                let tails = (0..nt).map(|_| pat(&mut c)).collect();
                let nm = (c.u8() % 4) as usize;
                let mixed = (0..nm).map(|_| c.u16()).collect();
                let cut = c.u16();
                let np = (c.u8() % 4) as usize;
                let probes = (0..np).map(|_| (c.u16(), c.u16())).collect();
                let case = c17::SetCase { common, common_len, len, tails, mixed, cut, probes };
                judge(id, "sets", &case, c17::check_set_case);
            }
        }
        "C19" => c19_bytes(data),
        _ => panic!("no fuzz target for {id}"),
    }
    let _ = (label_strategy, value_strategy);
}
