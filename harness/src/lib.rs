//! Property-based testing / fuzzing harness deciding properties C01-C20 of facebook/akd.
pub mod dirx;
pub mod engine;
pub mod forge;
pub mod fuzz;
pub mod gen;
pub mod model;
pub mod props;
pub mod prover;
pub mod sched;
pub mod vdb;
