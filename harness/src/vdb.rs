//! Database wrapper around `AsyncInMemoryDatabase` (DESIGN §2.4): operation counting, fault
//! injection, commit capture, write rejection and scheduler gates.
use akd::errors::StorageError;
use akd::storage::memory::AsyncInMemoryDatabase;
use akd::storage::types::{DbRecord, KeyData, ValueState, ValueStateRetrievalFlag};
use akd::storage::{Database, DbSetState, Storable, StorageUtil};
use akd::{AkdLabel, AkdValue};
use std::cell::Cell;
use std::collections::{HashMap, HashSet};
use std::future::Future;
use std::pin::Pin;
use std::sync::atomic::{AtomicBool, AtomicU64, Ordering};
use std::sync::{Arc, Mutex};
use std::task::{Context, Poll};

#[derive(Clone, Copy, Debug, PartialEq, Eq, serde::Serialize)]
pub enum OpKind {
    Set,
    BatchSetGeneral,
    BatchSetCommit,
    Get,
    BatchGet,
    UserData,
    UserState,
    UserStateVersions,
}

#[derive(Default)]
pub struct Ctl {
    pub ops: AtomicU64,
    pub reads: AtomicU64,
    /// index of the operation that fails (u64::MAX = none)
    pub fault_at: AtomicU64,
    /// when set, every operation from `fault_at` on fails until cleared (outage)
    pub outage: AtomicBool,
    pub faults_hit: AtomicU64,
    pub log: Mutex<Vec<OpKind>>,
    pub logging: AtomicBool,
    /// capture every write (in order) while set; when `capture_apply` is false the writes are NOT applied
    pub capture: AtomicBool,
    pub capture_apply: AtomicBool,
    pub captured: Mutex<Vec<Vec<DbRecord>>>,
    /// full binary ids whose writes are rejected
    pub reject: Mutex<HashSet<Vec<u8>>>,
    pub rejected: AtomicU64,
    /// scheduler gates enabled
    pub sched: AtomicBool,
    /// p > 0: every p-th gate (before / after a database operation) yields to the runtime once, so that
    /// spawned tasks really interleave on a current_thread runtime (deterministically)
    pub yield_every: AtomicU64,
    pub gates: AtomicU64,
}

#[derive(Clone)]
pub struct VDb {
    pub inner: AsyncInMemoryDatabase,
    pub ctl: Arc<Ctl>,
}

impl VDb {
    pub fn new() -> Self {
        Self::over(AsyncInMemoryDatabase::new())
    }
    pub fn over(inner: AsyncInMemoryDatabase) -> Self {
        let ctl = Ctl { fault_at: AtomicU64::new(u64::MAX), capture_apply: AtomicBool::new(true), ..Default::default() };
        VDb { inner, ctl: Arc::new(ctl) }
    }
    pub fn op_count(&self) -> u64 {
        self.ctl.ops.load(Ordering::SeqCst)
    }
    pub fn reset_ops(&self) {
        self.ctl.ops.store(0, Ordering::SeqCst);
        self.ctl.faults_hit.store(0, Ordering::SeqCst);
        self.ctl.gates.store(0, Ordering::SeqCst);
        self.ctl.log.lock().unwrap().clear();
    }
    pub fn set_fault(&self, at: Option<u64>, outage: bool) {
        self.ctl.fault_at.store(at.unwrap_or(u64::MAX), Ordering::SeqCst);
        self.ctl.outage.store(outage, Ordering::SeqCst);
    }
    fn step(&self, kind: OpKind) -> Result<(), StorageError> {
        let i = self.ctl.ops.fetch_add(1, Ordering::SeqCst);
        if self.ctl.logging.load(Ordering::Relaxed) {
            self.ctl.log.lock().unwrap().push(kind);
        }
        let at = self.ctl.fault_at.load(Ordering::SeqCst);
        if i == at || (self.ctl.outage.load(Ordering::SeqCst) && at != u64::MAX && i >= at) {
            self.ctl.faults_hit.fetch_add(1, Ordering::SeqCst);
            return Err(StorageError::Connection(format!("injected fault at storage operation {i} ({kind:?})")));
        }
        Ok(())
    }
    async fn gate(&self) {
        if self.ctl.sched.load(Ordering::Relaxed) {
            Gate { armed: true }.await
        } else {
            let p = self.ctl.yield_every.load(Ordering::Relaxed);
            if p > 0 && self.ctl.gates.fetch_add(1, Ordering::Relaxed) % p == 0 {
                tokio::task::yield_now().await;
            }
        }
    }
    fn check_reject(&self, records: &[DbRecord]) -> Result<(), StorageError> {
        let rej = self.ctl.reject.lock().unwrap();
        if !rej.is_empty() && records.iter().any(|r| rej.contains(&r.get_full_binary_id())) {
            self.ctl.rejected.fetch_add(1, Ordering::SeqCst);
            return Err(StorageError::Connection("injected: database rejected the write".into()));
        }
        Ok(())
    }
}

/// deep copy of a database's content, sorted by key (for comparisons)
pub async fn snapshot(db: &AsyncInMemoryDatabase) -> Vec<DbRecord> {
    let mut v = db.batch_get_all_direct().await.unwrap_or_default();
    v.sort_by_key(|r| r.get_full_binary_id());
    v
}
pub async fn restore(records: &[DbRecord]) -> AsyncInMemoryDatabase {
    let db = AsyncInMemoryDatabase::new();
    db.batch_set(records.to_vec(), DbSetState::General).await.unwrap();
    db
}

#[async_trait::async_trait]
impl Database for VDb {
    async fn set(&self, record: DbRecord) -> Result<(), StorageError> {
        self.gate().await;
        self.step(OpKind::Set)?;
        self.check_reject(std::slice::from_ref(&record))?;
        if self.ctl.capture.load(Ordering::SeqCst) {
            self.ctl.captured.lock().unwrap().push(vec![record.clone()]);
            if !self.ctl.capture_apply.load(Ordering::SeqCst) {
                return Ok(());
            }
        }
        let r = self.inner.set(record).await;
        self.gate().await;
        r
    }
    async fn batch_set(&self, records: Vec<DbRecord>, state: DbSetState) -> Result<(), StorageError> {
        self.gate().await;
        let commit = matches!(state, DbSetState::TransactionCommit);
        self.step(if commit { OpKind::BatchSetCommit } else { OpKind::BatchSetGeneral })?;
        self.check_reject(&records)?;
        if self.ctl.capture.load(Ordering::SeqCst) {
            self.ctl.captured.lock().unwrap().push(records.clone());
            if !self.ctl.capture_apply.load(Ordering::SeqCst) {
                return Ok(());
            }
        }
        let r = self.inner.batch_set(records, state).await;
        self.gate().await;
        r
    }
    async fn get<St: Storable>(&self, id: &St::StorageKey) -> Result<DbRecord, StorageError> {
        self.gate().await;
        self.step(OpKind::Get)?;
        self.ctl.reads.fetch_add(1, Ordering::Relaxed);
        let r = self.inner.get::<St>(id).await;
        self.gate().await;
        r
    }
    async fn batch_get<St: Storable>(&self, ids: &[St::StorageKey]) -> Result<Vec<DbRecord>, StorageError> {
        self.gate().await;
        self.step(OpKind::BatchGet)?;
        self.ctl.reads.fetch_add(1, Ordering::Relaxed);
        let r = self.inner.batch_get::<St>(ids).await;
        self.gate().await;
        r
    }
    async fn get_user_data(&self, username: &AkdLabel) -> Result<KeyData, StorageError> {
        self.gate().await;
        self.step(OpKind::UserData)?;
        self.ctl.reads.fetch_add(1, Ordering::Relaxed);
        let r = self.inner.get_user_data(username).await;
        self.gate().await;
        r
    }
    async fn get_user_state(&self, username: &AkdLabel, flag: ValueStateRetrievalFlag) -> Result<ValueState, StorageError> {
        self.gate().await;
        self.step(OpKind::UserState)?;
        self.ctl.reads.fetch_add(1, Ordering::Relaxed);
        let r = self.inner.get_user_state(username, flag).await;
        self.gate().await;
        r
    }
    async fn get_user_state_versions(&self, usernames: &[AkdLabel], flag: ValueStateRetrievalFlag) -> Result<HashMap<AkdLabel, (u64, AkdValue)>, StorageError> {
        self.gate().await;
        self.step(OpKind::UserStateVersions)?;
        self.ctl.reads.fetch_add(1, Ordering::Relaxed);
        let r = self.inner.get_user_state_versions(usernames, flag).await;
        self.gate().await;
        r
    }
}

// ------------------------------------------------------------------ scheduler gates
thread_local! {
    /// actor currently being polled by the deterministic scheduler (None = not scheduled: gates are transparent)
    pub static CURRENT: Cell<Option<usize>> = Cell::new(None);
    /// set when the polled actor stopped at a gate
    pub static AT_YIELD: Cell<bool> = Cell::new(false);
}
pub struct Gate {
    armed: bool,
}
impl Future for Gate {
    type Output = ();
    fn poll(mut self: Pin<&mut Self>, _cx: &mut Context<'_>) -> Poll<()> {
        if CURRENT.with(|c| c.get()).is_none() {
            return Poll::Ready(());
        }
        if self.armed {
            self.armed = false;
            AT_YIELD.with(|y| y.set(true));
            Poll::Pending
        } else {
            Poll::Ready(())
        }
    }
}
