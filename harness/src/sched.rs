//! Deterministic scheduler (DESIGN §2.5): actors are futures polled by hand inside a
//! paused-clock current_thread tokio runtime; an actor runs until its next storage-operation
//! gate (see vdb.rs), until it completes, or until it is blocked on something else.
use crate::vdb::{AT_YIELD, CURRENT};
use std::future::Future;
use std::pin::Pin;
use std::task::Poll;

pub type Actor<'a, T> = Pin<Box<dyn Future<Output = T> + 'a>>;

#[derive(Clone, Copy, PartialEq, Eq, Debug)]
pub enum StepRes {
    /// stopped at a storage-operation gate
    Yielded,
    /// pending on something that is not a gate (lock, join, sleep) even after yielding to the runtime
    Blocked,
    Done,
}

/// How the next actor is chosen at every decision point.
#[derive(Clone, Debug)]
pub enum Policy {
    /// generated schedule: 0 = keep the current actor, c>0 = switch to the (c-1)-th other runnable actor
    Bytes(Vec<u8>),
    /// non-preemptive (lowest index first) except at the given global step numbers, where the
    /// actor chosen is the (n mod runnable-others)-th other runnable actor
    Preempt(Vec<(u32, u8)>),
    /// explicit script: the actor to run at each step, in order; an entry whose actor is finished or
    /// blocked is skipped; after the script: non-preemptive (lowest index first)
    Script(Vec<u8>),
}

pub struct Trace {
    /// actor chosen at every step
    pub steps: Vec<u8>,
    /// number of switches away from a runnable actor
    pub preemptions: u32,
    pub deadlock: bool,
}

thread_local! {
    static SCHED_RT: tokio::runtime::Runtime = tokio::runtime::Builder::new_current_thread().enable_time().start_paused(true).build().unwrap();
}
/// run a future on this thread's paused-clock runtime (virtual time)
pub fn block_on_paused<F: Future>(f: F) -> F::Output {
    SCHED_RT.with(|rt| rt.block_on(f))
}

async fn step<T>(idx: usize, fut: &mut Actor<'_, T>, out: &mut Option<T>) -> StepRes {
    for attempt in 0..60 {
        CURRENT.with(|c| c.set(Some(idx)));
        AT_YIELD.with(|y| y.set(false));
        let r = std::future::poll_fn(|cx| Poll::Ready(fut.as_mut().poll(cx))).await;
        CURRENT.with(|c| c.set(None));
        match r {
            Poll::Ready(v) => {
                *out = Some(v);
                return StepRes::Done;
            }
            Poll::Pending => {
                if AT_YIELD.with(|y| y.get()) {
                    return StepRes::Yielded;
                }
                // blocked on a lock / spawned task / timer: let the runtime make progress
                tokio::task::yield_now().await;
                if attempt >= 20 && attempt % 10 == 0 {
                    tokio::time::advance(std::time::Duration::from_millis(1)).await;
                }
            }
        }
    }
    StepRes::Blocked
}

/// Run all actors to completion under `policy`. Returns their outputs and the trace.
pub async fn run_actors<'a, T>(actors: Vec<Actor<'a, T>>, policy: &Policy, max_steps: usize) -> (Vec<Option<T>>, Trace) {
    run_actors_d(actors, policy, max_steps, 0, 0).await
}

/// As `run_actors`; the last `daemons` actors are background activities that need not finish: they run only
/// when the schedule names them (one step at a time, never "kept") or when nobody else can run; the run ends
/// when all other actors are done, after `tail_rounds` further round-robin steps of the daemons.
pub async fn run_actors_d<'a, T>(mut actors: Vec<Actor<'a, T>>, policy: &Policy, max_steps: usize, daemons: usize, tail_rounds: usize) -> (Vec<Option<T>>, Trace) {
    let n = actors.len();
    let fg = n - daemons;
    let mut si = 0usize;
    let mut outs: Vec<Option<T>> = (0..n).map(|_| None).collect();
    let mut done = vec![false; n];
    let mut blocked = vec![false; n];
    let mut trace = Trace { steps: vec![], preemptions: 0, deadlock: false };
    let mut cur = 0usize;
    let mut step_no = 0u32;
    let mut bi = 0usize;
    let mut all_blocked_rounds = 0;
    while done[..fg].iter().any(|d| !d) {
        if trace.steps.len() >= max_steps {
            trace.deadlock = true;
            break;
        }
        // runnable = not done and not known to be blocked
        let runnable: Vec<usize> = (0..n).filter(|i| !done[*i] && !blocked[*i]).collect();
        if runnable.is_empty() {
            // everybody is blocked: let virtual time pass, then retry everyone
            tokio::time::advance(std::time::Duration::from_millis(50)).await;
            tokio::task::yield_now().await;
            blocked.iter_mut().for_each(|b| *b = false);
            all_blocked_rounds += 1;
            if all_blocked_rounds > 200 {
                trace.deadlock = true;
                break;
            }
            continue;
        }
        let cur_ok = runnable.contains(&cur) && cur < fg;
        let others: Vec<usize> = runnable.iter().cloned().filter(|i| *i != cur).collect();
        let pick = match policy {
            Policy::Bytes(b) => {
                let c = if bi < b.len() { b[bi] } else { 0 };
                bi += 1;
                if c == 0 || others.is_empty() {
                    if cur_ok {
                        cur
                    } else {
                        runnable[0]
                    }
                } else {
                    others[(c as usize - 1) % others.len()]
                }
            }
            Policy::Script(sc) => {
                while si < sc.len() && !runnable.contains(&(sc[si] as usize)) {
                    si += 1;
                }
                if si < sc.len() {
                    si += 1;
                    sc[si - 1] as usize
                } else if cur_ok {
                    cur
                } else {
                    runnable[0]
                }
            }
            Policy::Preempt(ps) => match ps.iter().find(|(s, _)| *s == step_no) {
                Some((_, a)) if !others.is_empty() => others[*a as usize % others.len()],
                _ => {
                    if cur_ok {
                        cur
                    } else {
                        runnable[0]
                    }
                }
            },
        };
        if cur_ok && pick != cur {
            trace.preemptions += 1;
        }
        cur = pick;
        trace.steps.push(cur as u8);
        step_no += 1;
        match step(cur, &mut actors[cur], &mut outs[cur]).await {
            StepRes::Done => {
                done[cur] = true;
                // a finished actor may have released what others were blocked on
                blocked.iter_mut().for_each(|b| *b = false);
                all_blocked_rounds = 0;
            }
            StepRes::Yielded => {
                blocked.iter_mut().for_each(|b| *b = false);
                all_blocked_rounds = 0;
            }
            StepRes::Blocked => blocked[cur] = true,
        }
    }
    if !trace.deadlock {
        for _ in 0..tail_rounds {
            for d in fg..n {
                if !done[d] {
                    trace.steps.push(d as u8);
                    if step(d, &mut actors[d], &mut outs[d]).await == StepRes::Done {
                        done[d] = true;
                    }
                }
            }
        }
    }
    (outs, trace)
}

/// printable policy; generated byte schedules are cut at the number of decision points actually used
pub fn show_policy(p: &Policy, used: usize) -> String {
    match p {
        Policy::Bytes(b) => format!("Bytes({:?})", &b[..b.len().min(used)]),
        other => format!("{other:?}"),
    }
}
