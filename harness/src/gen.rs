//! Shared generators: publish histories over small label / value pools (DESIGN §2.3).
use crate::engine::sel;
use proptest::prelude::*;
use serde::{Deserialize, Serialize};
use std::collections::HashMap;

#[derive(Serialize, Deserialize, Clone, Debug, PartialEq, Eq, Hash)]
pub enum Op {
    /// set label[sel] to value[sel]
    Set(u16, u16),
    /// set label[sel] to a value never used before (forces a new version)
    Bump(u16),
}

#[derive(Serialize, Deserialize, Clone, Debug, PartialEq, Eq, Hash)]
pub struct Batch {
    pub ops: Vec<Op>,
    /// keep (or force) a repeated label in this batch: the publish must be rejected
    pub dup: bool,
}

#[derive(Serialize, Deserialize, Clone, Debug, PartialEq, Eq, Hash)]
pub struct Hist {
    /// VRF key index (0 = hard-coded key of the repository)
    pub key: u8,
    #[serde(with = "hexvecs")]
    pub labels: Vec<Vec<u8>>,
    #[serde(with = "hexvecs")]
    pub values: Vec<Vec<u8>>,
    pub batches: Vec<Batch>,
}

pub mod hexvecs {
    use serde::{Deserialize, Deserializer, Serialize, Serializer};
    pub fn serialize<S: Serializer>(v: &Vec<Vec<u8>>, s: S) -> Result<S::Ok, S::Error> {
        v.iter().map(hex::encode).collect::<Vec<_>>().serialize(s)
    }
    pub fn deserialize<'de, D: Deserializer<'de>>(d: D) -> Result<Vec<Vec<u8>>, D::Error> {
        let v = Vec::<String>::deserialize(d)?;
        v.into_iter().map(|s| hex::decode(s).map_err(serde::de::Error::custom)).collect()
    }
}
pub mod hexvec {
    use serde::{Deserialize, Deserializer, Serialize, Serializer};
    pub fn serialize<S: Serializer>(v: &Vec<u8>, s: S) -> Result<S::Ok, S::Error> {
        hex::encode(v).serialize(s)
    }
    pub fn deserialize<'de, D: Deserializer<'de>>(d: D) -> Result<Vec<u8>, D::Error> {
        hex::decode(String::deserialize(d)?).map_err(serde::de::Error::custom)
    }
}

pub type Pair = (Vec<u8>, Vec<u8>);

#[derive(Default, Clone, Debug)]
pub struct HistInfo {
    pub effective: u64,
    pub updates: u64,
    pub noop_publishes: u64,
    pub rejected: u64,
    pub skipped_resubmissions: u64,
    pub max_version: u64,
}

impl Hist {
    fn dedup_pool(v: &[Vec<u8>]) -> Vec<Vec<u8>> {
        let mut out: Vec<Vec<u8>> = vec![];
        for x in v {
            if !out.contains(x) {
                out.push(x.clone());
            }
        }
        out
    }
    /// Concrete batches (with duplicates only where `dup`), plus summary information computed
    /// by a plain map (used only for classification, never as an oracle).
    pub fn resolve(&self) -> (Vec<Vec<Pair>>, HistInfo) {
        let labels = Self::dedup_pool(&self.labels);
        let values = Self::dedup_pool(&self.values);
        let mut out = vec![];
        let mut info = HistInfo::default();
        let mut cur: HashMap<Vec<u8>, (u64, Vec<u8>)> = HashMap::new();
        let mut bump = 0u64;
        for b in &self.batches {
            let mut batch: Vec<Pair> = vec![];
            for op in &b.ops {
                let (l, v) = match op {
                    Op::Set(ls, vs) => (labels[sel(*ls, labels.len())].clone(), values[sel(*vs, values.len())].clone()),
                    Op::Bump(ls) => {
                        bump += 1;
                        (labels[sel(*ls, labels.len())].clone(), format!("bump-{bump}").into_bytes())
                    }
                };
                if b.dup || !batch.iter().any(|(x, _)| *x == l) {
                    batch.push((l, v));
                }
            }
            let mut has_dup = false;
            for i in 0..batch.len() {
                for j in 0..i {
                    has_dup |= batch[i].0 == batch[j].0;
                }
            }
            if b.dup && !has_dup && !batch.is_empty() {
                let first = batch[0].clone();
                batch.push((first.0, b"dup-value".to_vec()));
                has_dup = true;
            }
            if has_dup {
                info.rejected += 1;
            } else {
                let mut changed = false;
                for (l, v) in &batch {
                    match cur.get(l) {
                        None => {
                            cur.insert(l.clone(), (1, v.clone()));
                            changed = true;
                        }
                        Some((_, old)) if old == v => info.skipped_resubmissions += 1,
                        Some((ver, _)) => {
                            let nv = ver + 1;
                            cur.insert(l.clone(), (nv, v.clone()));
                            info.updates += 1;
                            info.max_version = info.max_version.max(nv);
                            changed = true;
                        }
                    }
                }
                if changed {
                    info.effective += 1;
                } else {
                    info.noop_publishes += 1;
                }
            }
            out.push(batch);
        }
        (out, info)
    }
}

pub fn label_strategy() -> impl Strategy<Value = Vec<u8>> {
    prop_oneof![
        2 => Just(vec![]),
        3 => any::<u8>().prop_map(|b| vec![b]),
        2 => Just(b"a".to_vec()),
        2 => Just(b"ab".to_vec()),
        2 => Just(b"abc".to_vec()),
        2 => (300usize..2000, any::<u8>()).prop_map(|(n, b)| vec![b; n]),
        4 => proptest::collection::vec(any::<u8>(), 32..=32),
        4 => proptest::collection::vec(any::<u8>(), 1..8),
        1 => Just(vec![0u8]),
        1 => Just(vec![0u8, 0u8]),
    ]
}
pub fn value_strategy() -> impl Strategy<Value = Vec<u8>> {
    prop_oneof![
        2 => Just(vec![]),
        3 => any::<u8>().prop_map(|b| vec![b]),
        2 => Just(b"value".to_vec()),
        2 => Just(b"value ".to_vec()),
        1 => (200usize..800, any::<u8>()).prop_map(|(n, b)| vec![b; n]),
        2 => proptest::collection::vec(any::<u8>(), 1..40),
    ]
}
pub fn op_strategy() -> impl Strategy<Value = Op> {
    prop_oneof![
        5 => (any::<u16>(), any::<u16>()).prop_map(|(l, v)| Op::Set(l, v)),
        2 => any::<u16>().prop_map(Op::Bump),
    ]
}
pub fn batch_strategy(max_ops: usize) -> impl Strategy<Value = Batch> {
    (proptest::collection::vec(op_strategy(), 0..=max_ops), prop_oneof![12 => Just(false), 1 => Just(true)])
        .prop_map(|(ops, dup)| Batch { ops, dup })
}
/// histories with `min_e..=max_e` batches of up to `max_ops` operations
pub fn hist_strategy(min_e: usize, max_e: usize, max_ops: usize, max_labels: usize) -> impl Strategy<Value = Hist> {
    (
        prop_oneof![3 => Just(0u8), 1 => 1u8..4],
        proptest::collection::vec(label_strategy(), 2..=max_labels),
        proptest::collection::vec(value_strategy(), 2..=5),
        proptest::collection::vec(batch_strategy(max_ops), min_e..=max_e),
    )
        .prop_map(|(key, labels, values, batches)| Hist { key, labels, values, batches })
}

/// A history shape that drives a few labels through many versions (powers of two and
/// neighbours) while others stay untouched: `rounds` batches, each bumping labels whose
/// selector falls under `hot`.
pub fn deep_hist_strategy(max_rounds: usize) -> impl Strategy<Value = Hist> {
    (
        prop_oneof![3 => Just(0u8), 1 => 1u8..4],
        proptest::collection::vec(label_strategy(), 3..=6),
        proptest::collection::vec(value_strategy(), 2..=3),
        proptest::collection::vec((0u8..16, any::<u16>(), any::<u16>()), 2..=max_rounds),
    )
        .prop_map(|(key, labels, values, rounds)| {
            let mut batches = vec![];
            // first batch: publish everything once
            batches.push(Batch { ops: (0..8u16).map(|i| Op::Set(i.wrapping_mul(8192).wrapping_add(100), 0)).collect(), dup: false });
            for (kind, a, b) in rounds {
                let mut ops = vec![Op::Bump(0)]; // label 0 is always hot
                if kind % 2 == 0 {
                    ops.push(Op::Bump(20000));
                }
                if kind % 5 == 0 {
                    ops.push(Op::Set(a, b));
                }
                batches.push(Batch { ops, dup: false });
            }
            Hist { key, labels, values, batches }
        })
}

/// a few large batches (60-150 random labels each, later batches re-publishing parts of them):
/// deep trees, wide parallel insertion, many decompressions
pub fn wide_hist_strategy() -> impl Strategy<Value = Hist> {
    (proptest::collection::vec(proptest::collection::vec(any::<u8>(), 1..6), 60..200), 1usize..4, any::<u16>()).prop_map(|(labels, rounds, salt)| {
        let n = labels.len() as u32;
        let selector = |i: u32| ((i as u64 * 65536 + 32768) / n as u64) as u16;
        let mut batches = vec![Batch { ops: (0..n).map(|i| Op::Set(selector(i), (i as u16).wrapping_mul(salt | 1))).collect(), dup: false }];
        for r in 0..rounds {
            batches.push(Batch { ops: (0..n).filter(|i| (i + r as u32) % 3 == 0).map(|i| Op::Bump(selector(i))).collect(), dup: false });
        }
        Hist { key: 0, labels, values: vec![b"a".to_vec(), vec![], b"bb".to_vec()], batches }
    })
}

/// one label driven through 258-300 versions (u8 boundaries, the skip-list entry 256), a second one updated now and then
pub fn very_deep_hist_strategy() -> impl Strategy<Value = Hist> {
    (label_strategy(), label_strategy(), 258usize..300, any::<u16>()).prop_map(|(a, b, n, salt)| {
        let mut batches = vec![Batch { ops: vec![Op::Set(0, 0), Op::Set(40000, 1)], dup: false }];
        for i in 0..n {
            let mut ops = vec![Op::Bump(0)];
            if (i as u16).wrapping_mul(salt | 1) % 29 == 0 {
                ops.push(Op::Bump(40000));
            }
            batches.push(Batch { ops, dup: false });
        }
        Hist { key: 0, labels: vec![a, [b, vec![0x5a]].concat()], values: vec![b"x".to_vec(), vec![]], batches }
    })
}

pub fn mixed_hist_strategy(max_e: usize, max_ops: usize) -> impl Strategy<Value = Hist> {
    prop_oneof![
        30 => hist_strategy(1, max_e, max_ops, 10),
        10 => deep_hist_strategy(max_e + 6),
        1 => wide_hist_strategy(),
    ]
}
