//! Adversarial prover (DESIGN §2.6): walks the real stored tree through the public storage
//! API and assembles honest, mis-anchored and mutated (non-)membership proofs.
use crate::model::{bit, MNode, MTree, D};
use akd::storage::types::DbRecord;
use akd::storage::{Database, StorageManager};
use akd::tree_node::{NodeKey, TreeNode, TreeNodeType, TreeNodeWithPreviousValue};
use akd::{AzksElement, AzksValue, Configuration, Direction, MembershipProof, NodeLabel, NonMembershipProof, SiblingProof};

pub struct Tree<'a, S: Database> {
    pub st: &'a StorageManager<S>,
    pub epoch: u64,
}

impl<'a, S: Database> Tree<'a, S> {
    pub async fn node(&self, l: NodeLabel) -> Option<TreeNode> {
        match self.st.get::<TreeNodeWithPreviousValue>(&NodeKey(l)).await {
            Ok(DbRecord::TreeNode(t)) => {
                if t.latest_node.last_epoch <= self.epoch {
                    Some(t.latest_node)
                } else {
                    t.previous_node
                }
            }
            _ => None,
        }
    }
    pub async fn root(&self) -> TreeNode {
        self.node(NodeLabel::root()).await.expect("root node")
    }
    /// root .. deepest stored node whose label is a prefix of (or equal to) q
    pub async fn path(&self, q: NodeLabel) -> Vec<TreeNode> {
        let mut out = vec![self.root().await];
        loop {
            let cur = out.last().unwrap().clone();
            if cur.label.label_len >= q.label_len {
                break;
            }
            let right = bit(&q.label_val, cur.label.label_len);
            let cl = if right { cur.right_child } else { cur.left_child };
            let Some(cl) = cl else { break };
            let Some(child) = self.node(cl).await else { break };
            if child.label.is_prefix_of(&q) {
                out.push(child);
            } else {
                break;
            }
        }
        out
    }
    /// value of a node as hashed into its parent
    pub fn parent_view<TC: Configuration>(n: &TreeNode) -> AzksValue {
        if n.node_type == TreeNodeType::Leaf {
            AzksValue(TC::hash_leaf_with_commitment(n.hash, n.last_epoch).0)
        } else {
            n.hash
        }
    }
    pub async fn child_elem<TC: Configuration>(&self, n: &TreeNode, dir: Direction) -> AzksElement {
        let cl = match dir {
            Direction::Left => n.left_child,
            Direction::Right => n.right_child,
        };
        match cl {
            Some(l) => match self.node(l).await {
                Some(c) => AzksElement { label: c.label, value: Self::parent_view::<TC>(&c) },
                None => AzksElement { label: TC::empty_label(), value: TC::empty_node_hash() },
            },
            None => AzksElement { label: TC::empty_label(), value: TC::empty_node_hash() },
        }
    }
    /// membership proof for path[i]
    pub async fn membership<TC: Configuration>(&self, path: &[TreeNode], i: usize) -> MembershipProof {
        let mut sibling_proofs = vec![];
        for k in 0..i {
            let anc = &path[k];
            let next = &path[k + 1];
            let dir = if anc.right_child == Some(next.label) { Direction::Right } else { Direction::Left };
            let sib = self.child_elem::<TC>(anc, dir.other()).await;
            sibling_proofs.push(SiblingProof { label: anc.label, siblings: [sib], direction: dir });
        }
        MembershipProof { label: path[i].label, hash_val: Self::parent_view::<TC>(&path[i]), sibling_proofs }
    }
    /// non-membership proof for q anchored at path[i] (honest iff i is the deepest interior node on the path and q is absent)
    pub async fn nonmembership_at<TC: Configuration>(&self, path: &[TreeNode], i: usize, q: NodeLabel) -> NonMembershipProof {
        let n = &path[i];
        NonMembershipProof {
            label: q,
            longest_prefix: n.label,
            longest_prefix_children: [self.child_elem::<TC>(n, Direction::Left).await, self.child_elem::<TC>(n, Direction::Right).await],
            longest_prefix_membership_proof: self.membership::<TC>(path, i).await,
        }
    }
}

// ------------------------------------------------------------------ ground truth on the model tree

/// all true nodes of the model tree as (label_len, label_val, value-as-seen-by-parent); the root carries its root value
pub fn true_nodes(t: &MTree) -> Vec<(u32, [u8; 32], D)> {
    fn rec(n: &MNode, out: &mut Vec<(u32, [u8; 32], D)>) {
        out.push((n.len, n.val, n.hash));
        if let Some(k) = &n.kids {
            rec(&k.0, out);
            rec(&k.1, out);
        }
    }
    let mut out = vec![(0, [0u8; 32], t.root_val)];
    for s in [&t.left, &t.right].into_iter().flatten() {
        rec(s, &mut out);
    }
    out
}
fn is_prefix(len: u32, val: &[u8; 32], q: &[u8; 32], qlen: u32) -> bool {
    len <= qlen && (0..len).all(|i| bit(val, i) == bit(q, i))
}
/// label (len, val) of the deepest model node that is a prefix of the 256-bit label q
pub fn deepest_prefix_node(t: &MTree, q: &[u8; 32]) -> (u32, [u8; 32]) {
    let mut best = (0u32, [0u8; 32]);
    let mut cur: Option<&MNode> = if bit(q, 0) { t.right.as_ref() } else { t.left.as_ref() };
    while let Some(n) = cur {
        if !is_prefix(n.len, &n.val, q, 256) {
            break;
        }
        best = (n.len, n.val);
        cur = match &n.kids {
            Some(k) if n.len < 256 => Some(if bit(q, n.len) { &k.1 } else { &k.0 }),
            _ => None,
        };
    }
    best
}
