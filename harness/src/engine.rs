//! Engine: seeded multi-worker proptest runner, evidence, replay files, known findings.
//!
//! A property's `run(&mut Engine)` function registers *parts*. In normal mode every part
//! generates / enumerates its cases; in replay mode only the part named in the replay file
//! runs, on exactly the saved case, through the same interpreter (no proptest involved).
use proptest::strategy::{Strategy, ValueTree};
use proptest::test_runner::{Config, RngAlgorithm, RngSeed, TestCaseError, TestError, TestRng, TestRunner};
use serde::de::DeserializeOwned;
use serde::Serialize;
use serde_json::{json, Value};
use std::collections::{BTreeMap, HashSet};
use std::sync::atomic::{AtomicBool, AtomicU64, Ordering};
use std::sync::Mutex;
use std::time::Instant;

pub const WORKERS: usize = 16;

#[derive(Clone, Copy, PartialEq, Eq, Debug)]
pub enum Tier {
    Quick,
    Thorough,
}
impl Tier {
    pub fn pick<T>(self, q: T, t: T) -> T {
        match self {
            Tier::Quick => q,
            Tier::Thorough => t,
        }
    }
    pub fn name(self) -> &'static str {
        self.pick("quick", "thorough")
    }
}

/// A failed oracle. `sig` is the structural signature matched against known_findings.json.
#[derive(Clone, Debug)]
pub struct Fail {
    pub sig: String,
    pub msg: String,
}
pub type R<T = ()> = Result<T, Fail>;
pub fn fail<T>(sig: impl Into<String>, msg: impl Into<String>) -> R<T> {
    Err(Fail { sig: sig.into(), msg: msg.into() })
}
#[macro_export]
macro_rules! ensure {
    ($cond:expr, $sig:expr, $($arg:tt)*) => {
        if !($cond) { return Err($crate::engine::Fail { sig: ($sig).to_string(), msg: format!($($arg)*) }); }
    };
}

/// Per-worker statistics for one part.
#[derive(Default)]
pub struct Ctx {
    pub evals: u64,
    pub classes: BTreeMap<String, u64>,
    pub nontrivial: HashSet<u64>,
    pub samples: Vec<Value>,
    pub counters: BTreeMap<String, u64>,
    pub counting: bool,
    pub tier_thorough: bool,
}
impl Ctx {
    pub fn class(&mut self, name: &str) {
        if self.counting {
            *self.classes.entry(name.to_string()).or_insert(0) += 1;
        }
    }
    pub fn count(&mut self, name: &str, n: u64) {
        if self.counting {
            *self.counters.entry(name.to_string()).or_insert(0) += n;
        }
    }
    /// record a distinct non-trivial case by fingerprint
    pub fn nontrivial(&mut self, fp: u64) {
        if self.counting {
            self.nontrivial.insert(fp);
        }
    }
    pub fn sample<T: Serialize>(&mut self, v: &T) {
        if self.counting && self.samples.len() < 2 {
            let s = serde_json::to_string(v).unwrap_or_default();
            if s.len() <= 6000 {
                self.samples.push(serde_json::to_value(v).unwrap_or(Value::Null));
            } else {
                let cut = (0..=3000).rev().find(|i| s.is_char_boundary(*i)).unwrap_or(0);
                self.samples.push(Value::String(format!("{} ...[{} bytes of JSON truncated]", &s[..cut], s.len() - cut)));
            }
        }
    }
    fn merge(&mut self, o: Ctx) {
        self.evals += o.evals;
        for (k, v) in o.classes {
            *self.classes.entry(k).or_insert(0) += v;
        }
        for (k, v) in o.counters {
            *self.counters.entry(k).or_insert(0) += v;
        }
        self.nontrivial.extend(o.nontrivial);
        for s in o.samples {
            if self.samples.len() < 4 {
                self.samples.push(s);
            }
        }
    }
}

pub fn fp<T: std::hash::Hash>(t: &T) -> u64 {
    use std::hash::Hasher;
    let mut h = std::collections::hash_map::DefaultHasher::new();
    t.hash(&mut h);
    h.finish()
}
pub fn fp_json<T: Serialize>(t: &T) -> u64 {
    fp(&serde_json::to_string(t).unwrap_or_default())
}

#[derive(Clone, Debug, serde::Deserialize)]
pub struct KnownFinding {
    pub property: String,
    pub status: String,
    pub signature: String,
    #[serde(default)]
    pub commit: Option<String>,
    pub text: String,
}

pub struct PartReport {
    pub name: String,
    pub ctx: Ctx,
    pub rule: String,
    pub exhaustive: bool,
}

pub struct Engine {
    pub id: String,
    pub tier: Tier,
    pub seed: u64,
    pub replay: Option<(String, Value)>,
    pub known: Vec<KnownFinding>,
    pub known_hits: Mutex<BTreeMap<String, u64>>,
    pub parts: Vec<PartReport>,
    pub violations: Vec<(String, String)>, // (replay path, message)
    pub assumptions: Vec<String>,
    pub level: String,
    pub start: Instant,
    pub verif_root: String,
    pub workers: usize,
    /// override of proptest's max_shrink_iters for expensive cases
    pub max_shrink: Option<u32>,
}

/// signatures of the known (not fixed) findings of the property being checked, and how often a
/// check excluded a case of that exact shape (so that the search continues behind it)
static KNOWN_SIGS: std::sync::OnceLock<Vec<String>> = std::sync::OnceLock::new();
static KNOWN_HITS: Mutex<BTreeMap<String, u64>> = Mutex::new(BTreeMap::new());
/// true iff `sig` is listed as a known finding; records the exclusion
pub fn known_hit(sig: &str) -> bool {
    let known = KNOWN_SIGS.get().map(|v| v.iter().any(|s| s == sig)).unwrap_or(false);
    if known {
        *KNOWN_HITS.lock().unwrap().entry(sig.to_string()).or_insert(0) += 1;
    }
    known
}

/// load the known-finding signatures of a property without constructing an Engine (fuzz targets)
pub fn init_known(id: &str, verif_root: &str) {
    let known: Vec<KnownFinding> = std::fs::read_to_string(format!("{verif_root}/known_findings.json"))
        .ok()
        .and_then(|s| serde_json::from_str::<Value>(&s).ok())
        .and_then(|v| serde_json::from_value(v["findings"].clone()).ok())
        .unwrap_or_default();
    let _ = KNOWN_SIGS.set(known.iter().filter(|k| k.property == id && k.status == "known").map(|k| k.signature.clone()).collect());
}

thread_local! {
    static PANIC_MSG: std::cell::RefCell<Option<String>> = std::cell::RefCell::new(None);
}

pub fn install_panic_hook() {
    std::panic::set_hook(Box::new(|info| {
        let msg = format!("{info}");
        PANIC_MSG.with(|p| *p.borrow_mut() = Some(msg));
    }));
}
pub fn take_panic_msg() -> String {
    PANIC_MSG.with(|p| p.borrow_mut().take()).unwrap_or_else(|| "panic".into())
}

/// run f, converting a panic into a Fail with signature `panic`
pub fn guarded<T>(f: impl FnOnce() -> R<T>) -> R<T> {
    match std::panic::catch_unwind(std::panic::AssertUnwindSafe(f)) {
        Ok(r) => r,
        Err(_) => fail("panic", format!("panicked: {}", take_panic_msg())),
    }
}

fn splitmix(mut x: u64) -> u64 {
    x = x.wrapping_add(0x9E3779B97F4A7C15);
    let mut z = x;
    z = (z ^ (z >> 30)).wrapping_mul(0xBF58476D1CE4E5B9);
    z = (z ^ (z >> 27)).wrapping_mul(0x94D049BB133111EB);
    z ^ (z >> 31)
}
pub fn derive_seed(seed: u64, id: &str, part: &str, worker: u64) -> u64 {
    let mut x = splitmix(seed ^ 0xA5A5_5A5A_1234_5678);
    for b in id.bytes().chain(part.bytes()) {
        x = splitmix(x ^ b as u64);
    }
    splitmix(x ^ worker.wrapping_mul(0x1000_0001))
}

impl Engine {
    pub fn new(id: &str, tier: Tier, seed: u64, replay: Option<(String, Value)>, verif_root: &str) -> Self {
        let known: Vec<KnownFinding> = std::fs::read_to_string(format!("{verif_root}/known_findings.json"))
            .ok()
            .and_then(|s| serde_json::from_str::<Value>(&s).ok())
            .and_then(|v| serde_json::from_value(v["findings"].clone()).ok())
            .unwrap_or_default();
        let _ = KNOWN_SIGS.set(known.iter().filter(|k| k.property == id && k.status == "known").map(|k| k.signature.clone()).collect());
        Engine {
            id: id.to_string(),
            tier,
            seed,
            replay,
            known,
            known_hits: Mutex::new(BTreeMap::new()),
            parts: vec![],
            violations: vec![],
            assumptions: vec![],
            level: "exploration".into(),
            start: Instant::now(),
            verif_root: verif_root.to_string(),
            workers: std::env::var("VERIF_WORKERS").ok().and_then(|s| s.parse().ok()).unwrap_or(WORKERS),
            max_shrink: None,
        }
    }
    pub fn assume(&mut self, s: &str) {
        self.assumptions.push(s.to_string());
    }
    /// signature listed as a *known* (not fixed) finding for this property?
    pub fn is_known(&self, sig: &str) -> bool {
        self.known.iter().any(|k| k.property == self.id && k.status == "known" && k.signature == sig)
    }
    pub fn note_known(&self, sig: &str) {
        *self.known_hits.lock().unwrap().entry(sig.to_string()).or_insert(0) += 1;
    }
    fn part_active(&self, part: &str) -> bool {
        match &self.replay {
            None => true,
            Some((p, _)) => p == part,
        }
    }
    pub fn replaying(&self) -> bool {
        self.replay.is_some()
    }

    fn save_replay(&mut self, part: &str, case: &Value, f: &Fail) -> String {
        let body = json!({"property": self.id, "part": part, "signature": f.sig, "message": f.msg, "case": case});
        let txt = serde_json::to_string_pretty(&body).unwrap();
        let h = fp(&txt);
        let dir = format!("{}/replays/{}", self.verif_root, self.id);
        let _ = std::fs::create_dir_all(&dir);
        let path = format!("{dir}/{part}-{h:016x}.json");
        let _ = std::fs::write(&path, txt);
        path
    }
    fn report_violation(&mut self, part: &str, case: &Value, f: &Fail) {
        let path = if self.replaying() {
            std::env::var("VERIF_REPLAY_PATH").unwrap_or_else(|_| "<replay>".into())
        } else {
            self.save_replay(part, case, f)
        };
        println!("VIOLATION property={} replay={}", self.id, path);
        println!("  part={} signature={} :: {}", part, f.sig, f.msg.replace('\n', " "));
        self.violations.push((path, format!("{}: {}", f.sig, f.msg)));
    }

    /// A proptest-driven part. `cases` is the total budget, split across workers.
    pub fn prop_part<C, S, F>(&mut self, part: &str, rule: &str, cases: u64, strat: impl Fn() -> S + Sync, f: F)
    where
        S: Strategy<Value = C>,
        C: Serialize + DeserializeOwned + std::fmt::Debug + Clone + Send,
        F: Fn(&C, &mut Ctx) -> R + Sync,
    {
        if !self.part_active(part) {
            return;
        }
        let thorough = self.tier == Tier::Thorough;
        // replay: run exactly the saved case
        if let Some((_, v)) = self.replay.clone() {
            let mut ctx = Ctx { counting: true, tier_thorough: thorough, ..Default::default() };
            match serde_json::from_value::<C>(v.clone()) {
                Ok(case) => {
                    ctx.evals = 1;
                    let r = guarded(|| f(&case, &mut ctx));
                    match r {
                        Ok(()) => println!("replay: case passes"),
                        Err(fl) if self.is_known(&fl.sig) => {
                            self.note_known(&fl.sig);
                        }
                        Err(fl) => self.report_violation(part, &v, &fl),
                    }
                }
                Err(e) => {
                    eprintln!("replay: cannot decode case: {e}");
                    std::process::exit(2);
                }
            }
            self.parts.push(PartReport { name: part.into(), ctx, rule: rule.into(), exhaustive: false });
            return;
        }
        // regression tier: saved failing cases of this part are re-run first, bypassing proptest
        let mut reg_ctx = Ctx { counting: true, tier_thorough: thorough, ..Default::default() };
        let mut reg_fails = vec![];
        if let Ok(rd) = std::fs::read_dir(format!("{}/regressions/{}", self.verif_root, self.id)) {
            let mut files: Vec<_> = rd.filter_map(|e| e.ok()).map(|e| e.path()).filter(|p| p.file_name().and_then(|n| n.to_str()).map(|n| n.starts_with(&format!("{part}-")) && n.ends_with(".json")).unwrap_or(false)).collect();
            files.sort();
            for pth in files {
                let Ok(txt) = std::fs::read_to_string(&pth) else { continue };
                let Ok(v) = serde_json::from_str::<Value>(&txt) else { continue };
                let Ok(case) = serde_json::from_value::<C>(v["case"].clone()) else { continue };
                reg_ctx.evals += 1;
                reg_ctx.class("regression_case");
                match guarded(|| f(&case, &mut reg_ctx)) {
                    Ok(()) => {}
                    Err(fl) if self.is_known(&fl.sig) => self.note_known(&fl.sig),
                    Err(fl) => reg_fails.push((pth.display().to_string(), fl)),
                }
            }
        }
        for (pth, fl) in reg_fails {
            println!("VIOLATION property={} replay={}", self.id, pth);
            println!("  part={} signature={} (regression case) :: {}", part, fl.sig, fl.msg.replace('\n', " "));
            self.violations.push((pth, format!("{}: {}", fl.sig, fl.msg)));
        }
        let workers = self.workers.max(1).min(cases.max(1) as usize);
        let stop = AtomicBool::new(false);
        let results: Mutex<Vec<(Ctx, Option<(Value, Fail)>)>> = Mutex::new(vec![]);
        let known_sigs: Vec<String> =
            self.known.iter().filter(|k| k.property == self.id && k.status == "known").map(|k| k.signature.clone()).collect();
        let known_hits = &self.known_hits;
        let (id, seed) = (self.id.clone(), self.seed);
        let max_shrink = self.max_shrink;
        let f = &f;
        let strat = &strat;
        std::thread::scope(|sc| {
            for w in 0..workers {
                let share = cases / workers as u64 + if (w as u64) < cases % workers as u64 { 1 } else { 0 };
                let (stop, results, known_sigs, id) = (&stop, &results, &known_sigs, &id);
                std::thread::Builder::new()
                    .stack_size(64 << 20)
                    .spawn_scoped(sc, move || {
                        let ws = derive_seed(seed, id, part, w as u64);
                        let cfg = Config {
                            cases: share as u32,
                            failure_persistence: None,
                            rng_seed: RngSeed::Fixed(ws),
                            max_shrink_iters: max_shrink.unwrap_or(if thorough { 600 } else { 300 }),
                            max_global_rejects: 100_000,
                            ..Config::default()
                        };
                        let mut runner = TestRunner::new(cfg);
                        let ctx = std::cell::RefCell::new(Ctx { counting: true, tier_thorough: thorough, ..Default::default() });
                        let last_fail: std::cell::RefCell<Option<Fail>> = std::cell::RefCell::new(None);
                        let res = runner.run(&strat(), |case| {
                            if stop.load(Ordering::Relaxed) && ctx.borrow().counting {
                                return Ok(());
                            }
                            let mut c = ctx.borrow_mut();
                            if c.counting {
                                c.evals += 1;
                            }
                            let r = guarded(|| f(&case, &mut c));
                            match r {
                                Ok(()) => Ok(()),
                                Err(fl) if known_sigs.iter().any(|s| *s == fl.sig) => {
                                    *known_hits.lock().unwrap().entry(fl.sig.clone()).or_insert(0) += 1;
                                    Ok(())
                                }
                                Err(fl) => {
                                    c.counting = false; // shrinking re-runs must not count
                                    let m = format!("{}|{}", fl.sig, fl.msg);
                                    *last_fail.borrow_mut() = Some(fl);
                                    Err(TestCaseError::fail(m))
                                }
                            }
                        });
                        let failure = match res {
                            Ok(()) => None,
                            Err(TestError::Fail(reason, value)) => {
                                stop.store(true, Ordering::Relaxed);
                                // re-run the minimal case once to get its exact failure
                                let mut scratch = Ctx::default();
                                let fl = match guarded(|| f(&value, &mut scratch)) {
                                    Err(fl) => fl,
                                    Ok(()) => {
                                        let s = reason.message().to_string();
                                        let (a, b) = s.split_once('|').unwrap_or(("unknown", &s));
                                        Fail { sig: a.into(), msg: format!("(not reproduced on re-run) {b}") }
                                    }
                                };
                                Some((serde_json::to_value(&value).unwrap_or(Value::Null), fl))
                            }
                            Err(TestError::Abort(reason)) => {
                                eprintln!("proptest aborted: {reason}");
                                std::process::exit(2);
                            }
                        };
                        results.lock().unwrap().push((ctx.into_inner(), failure));
                    })
                    .unwrap();
            }
        });
        let mut total = Ctx { counting: true, ..Default::default() };
        total.merge(reg_ctx);
        let mut fails = vec![];
        for (c, fl) in results.into_inner().unwrap() {
            total.merge(c);
            if let Some(x) = fl {
                fails.push(x);
            }
        }
        // report distinct failures (by signature)
        let mut seen = HashSet::new();
        for (v, fl) in fails {
            if seen.insert(fl.sig.clone()) {
                self.report_violation(part, &v, &fl);
            }
        }
        self.parts.push(PartReport { name: part.into(), ctx: total, rule: rule.into(), exhaustive: false });
    }

    /// A hand-enumerated (typically exhaustive) part. `items` are work units distributed over
    /// the workers; `f` evaluates one unit and returns the failing case (as JSON) on violation.
    /// `replay_f` re-runs a saved case.
    pub fn enum_part<W, F, G>(&mut self, part: &str, rule: &str, exhaustive: bool, items: Vec<W>, f: F, replay_f: G)
    where
        W: Send + Sync,
        F: Fn(&W, &mut Ctx) -> Result<(), (Value, Fail)> + Sync,
        G: Fn(&Value, &mut Ctx) -> R,
    {
        if !self.part_active(part) {
            return;
        }
        let thorough = self.tier == Tier::Thorough;
        if let Some((_, v)) = self.replay.clone() {
            let mut ctx = Ctx { counting: true, tier_thorough: thorough, evals: 1, ..Default::default() };
            match guarded(|| replay_f(&v, &mut ctx)) {
                Ok(()) => println!("replay: case passes"),
                Err(fl) if self.is_known(&fl.sig) => self.note_known(&fl.sig),
                Err(fl) => self.report_violation(part, &v, &fl),
            }
            self.parts.push(PartReport { name: part.into(), ctx, rule: rule.into(), exhaustive: false });
            return;
        }
        let next = AtomicU64::new(0);
        let results: Mutex<Vec<(Ctx, Vec<(Value, Fail)>)>> = Mutex::new(vec![]);
        let known_sigs: Vec<String> =
            self.known.iter().filter(|k| k.property == self.id && k.status == "known").map(|k| k.signature.clone()).collect();
        let known_hits = &self.known_hits;
        let (items, f) = (&items, &f);
        let workers = self.workers.max(1).min(items.len().max(1));
        std::thread::scope(|sc| {
            for _ in 0..workers {
                let (next, results, known_sigs) = (&next, &results, &known_sigs);
                std::thread::Builder::new()
                    .stack_size(64 << 20)
                    .spawn_scoped(sc, move || {
                        let mut ctx = Ctx { counting: true, tier_thorough: thorough, ..Default::default() };
                        let mut fails = vec![];
                        loop {
                            let i = next.fetch_add(1, Ordering::Relaxed) as usize;
                            if i >= items.len() || fails.len() >= 3 {
                                break;
                            }
                            let r = match std::panic::catch_unwind(std::panic::AssertUnwindSafe(|| f(&items[i], &mut ctx))) {
                                Ok(r) => r,
                                Err(_) => Err((json!({"work_item": i}), Fail { sig: "panic".into(), msg: take_panic_msg() })),
                            };
                            if let Err((v, fl)) = r {
                                if known_sigs.iter().any(|s| *s == fl.sig) {
                                    *known_hits.lock().unwrap().entry(fl.sig.clone()).or_insert(0) += 1;
                                } else {
                                    fails.push((v, fl));
                                }
                            }
                        }
                        results.lock().unwrap().push((ctx, fails));
                    })
                    .unwrap();
            }
        });
        let mut total = Ctx { counting: true, ..Default::default() };
        let mut seen = HashSet::new();
        for (c, fails) in results.into_inner().unwrap() {
            total.merge(c);
            for (v, fl) in fails {
                if seen.insert(fl.sig.clone()) {
                    self.report_violation(part, &v, &fl);
                }
            }
        }
        self.parts.push(PartReport { name: part.into(), ctx: total, rule: rule.into(), exhaustive });
    }

    /// A part executed by an external engine (libFuzzer campaign run by ./check before this binary);
    /// the counts come from its final statistics.
    pub fn external_part(&mut self, name: &str, rule: &str, evals: u64, nontrivial: Vec<u64>, sample: Value) {
        if self.replaying() {
            return;
        }
        let mut ctx = Ctx { counting: true, evals, ..Default::default() };
        for x in nontrivial {
            ctx.nontrivial(x);
        }
        ctx.samples.push(sample);
        self.parts.push(PartReport { name: name.into(), ctx, rule: rule.into(), exhaustive: false });
    }
    /// picks up the libFuzzer campaign statistics exported by ./check (thorough tier)
    pub fn fuzz_part_from_env(&mut self, target: &str) {
        let (Ok(execs), Ok(corpus)) = (std::env::var("VERIF_FUZZ_EXECS"), std::env::var("VERIF_FUZZ_CORPUS")) else { return };
        let execs: u64 = execs.trim().parse().unwrap_or(0);
        let mut fps = vec![];
        let mut names = vec![];
        if let Ok(rd) = std::fs::read_dir(&corpus) {
            for e in rd.filter_map(|e| e.ok()) {
                let n = e.file_name().to_string_lossy().to_string();
                fps.push(fp(&n));
                if names.len() < 3 {
                    let bytes = std::fs::read(e.path()).unwrap_or_default();
                    names.push(json!({"corpus_file": n, "bytes_hex": hex::encode(&bytes[..bytes.len().min(64)]), "len": bytes.len()}));
                }
            }
        }
        if execs == 0 {
            return;
        }
        self.external_part(
            "libfuzzer",
            &format!("coverage-guided libFuzzer campaign on target {target} (harness/fuzz): bytes are decoded by hand into the same case type and judged by the same oracle; evaluations = executed units reported by libFuzzer, non-trivial = inputs kept in the corpus because they reached new coverage (distinct by content hash)"),
            execs,
            fps,
            json!(names),
        );
    }

    /// Write evidence, print KNOWN-FINDING lines, return the process exit code.
    pub fn finish(&mut self) -> i32 {
        let wall = self.start.elapsed().as_secs_f64();
        let mut hits = self.known_hits.lock().unwrap().clone();
        for (k, v) in KNOWN_HITS.lock().unwrap().iter() {
            *hits.entry(k.clone()).or_insert(0) += *v;
        }
        for k in self.known.iter().filter(|k| k.property == self.id && k.status == "known") {
            println!(
                "KNOWN-FINDING: property={} {} :: {} (matched {} time(s) this run)",
                self.id,
                k.signature,
                k.text,
                hits.get(&k.signature).copied().unwrap_or(0)
            );
        }
        if self.replaying() {
            return if self.violations.is_empty() { 0 } else { 1 };
        }
        let mut evals = 0u64;
        let mut nontriv = 0u64;
        let mut samples = vec![];
        let mut parts = vec![];
        let mut rules = vec![];
        let mut all_exh = !self.parts.is_empty();
        for p in &self.parts {
            evals += p.ctx.evals;
            nontriv += p.ctx.nontrivial.len() as u64;
            for s in p.ctx.samples.iter().take(3) {
                samples.push(json!({"part": p.name, "case": s}));
            }
            rules.push(format!("[{}] {}", p.name, p.rule));
            all_exh &= p.exhaustive;
            parts.push(json!({
                "part": p.name, "evaluations": p.ctx.evals, "distinct_nontrivial": p.ctx.nontrivial.len(),
                "classes": p.ctx.classes, "counters": p.ctx.counters, "exhaustive": p.exhaustive,
            }));
        }
        if samples.is_empty() {
            samples.push(json!("no case was generated"));
        }
        let ev = json!({
            "property_id": self.id,
            "tier": self.tier.name(),
            "seed": self.seed,
            "level": self.level,
            "coverage": {
                "evaluations": evals,
                "distinct_nontrivial": nontriv,
                "rule": rules.join(" || "),
                "samples": samples,
                "exhaustive": all_exh,
                "parts": parts,
                "known_finding_matches": hits,
            },
            "assumptions": self.assumptions,
            "wall_s": (wall * 1000.0).round() / 1000.0,
            "violations": self.violations.len(),
        });
        if std::env::var("VERIF_NO_EVIDENCE").is_err() {
            let dir = format!("{}/evidence", self.verif_root);
            let _ = std::fs::create_dir_all(&dir);
            let path = format!("{dir}/{}.json", self.id);
            let tmp = format!("{path}.tmp");
            std::fs::write(&tmp, serde_json::to_string_pretty(&ev).unwrap()).expect("write evidence");
            std::fs::rename(&tmp, &path).expect("rename evidence");
        }
        println!(
            "{} tier={} seed={} evaluations={} distinct_nontrivial={} violations={} wall={:.1}s",
            self.id,
            self.tier.name(),
            self.seed,
            evals,
            nontriv,
            self.violations.len(),
            wall
        );
        for p in &self.parts {
            println!("  part {:<14} evals={:<9} nontrivial={:<8} classes={:?} counters={:?}", p.name, p.ctx.evals, p.ctx.nontrivial.len(), p.ctx.classes, p.ctx.counters);
        }
        if self.violations.is_empty() {
            0
        } else {
            1
        }
    }
}

/// deterministic RNG for enumerated parts that also sample (never used inside proptest parts)
pub fn det_rng(seed: u64) -> TestRng {
    let mut s = [0u8; 32];
    for i in 0..4 {
        s[i * 8..i * 8 + 8].copy_from_slice(&splitmix(seed.wrapping_add(i as u64)).to_le_bytes());
    }
    TestRng::from_seed(RngAlgorithm::ChaCha, &s)
}

/// monotone index mapping for shrink-friendly selectors
pub fn sel(s: u16, len: usize) -> usize {
    if len == 0 {
        0
    } else {
        ((s as usize) * len) >> 16
    }
}

/// generate one value from a strategy with a deterministic rng (for enumerated parts)
pub fn sample_strategy<S: Strategy>(s: &S, seed: u64) -> S::Value {
    let mut runner = TestRunner::new_with_rng(Config::default(), det_rng(seed));
    s.new_tree(&mut runner).expect("strategy").current()
}

pub fn start_watchdog(secs: u64) {
    std::thread::spawn(move || {
        std::thread::sleep(std::time::Duration::from_secs(secs));
        println!("INCONCLUSIVE: watchdog after {secs}s (hang or overload) - no verdict");
        std::process::exit(2);
    });
}
