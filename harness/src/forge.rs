//! Dishonest server tooling (DESIGN §2.6): assembles lookup / history proofs from the real
//! tree with the VRF secret key, and performs dishonest publishes through the public API.
use crate::model::{KeyVrf, MVersion, Tcfg};
use crate::prover::Tree;
use akd::append_only_zks::InsertMode;
use akd::ecvrf::VRFKeyStorage;
use akd::storage::types::{DbRecord, ValueState};
use akd::storage::{Database, StorageManager};
use akd::{
    AkdLabel, AkdValue, Azks, AzksElement, AzksValue, HistoryProof, LookupProof, MembershipProof, NodeLabel, NonMembershipProof, UpdateProof,
    VersionFreshness,
};

pub struct Forger<'a, S: Database + 'static> {
    pub key: Vec<u8>,
    pub vrf: KeyVrf,
    pub st: &'a StorageManager<S>,
    pub azks: Azks,
}

fn fr(fresh: bool) -> VersionFreshness {
    if fresh {
        VersionFreshness::Fresh
    } else {
        VersionFreshness::Stale
    }
}

impl<'a, S: Database + 'static> Forger<'a, S> {
    pub async fn new(st: &'a StorageManager<S>, key: &[u8]) -> Forger<'a, S> {
        let azks = match st.get::<Azks>(&akd::append_only_zks::DEFAULT_AZKS_KEY).await {
            Ok(DbRecord::Azks(a)) => a,
            _ => panic!("no epoch record"),
        };
        Forger { key: key.to_vec(), vrf: KeyVrf(key.to_vec()), st, azks }
    }
    pub fn tree(&self) -> Tree<'a, S> {
        Tree { st: self.st, epoch: self.azks.latest_epoch }
    }
    pub async fn vrf_proof<TC: Tcfg>(&self, label: &[u8], fresh: bool, v: u64) -> Vec<u8> {
        self.vrf.get_label_proof::<TC>(&AkdLabel(label.to_vec()), fr(fresh), v).await.unwrap().to_bytes().to_vec()
    }
    pub async fn node_label<TC: Tcfg>(&self, label: &[u8], fresh: bool, v: u64) -> NodeLabel {
        self.vrf.get_node_label::<TC>(&AkdLabel(label.to_vec()), fr(fresh), v).await.unwrap()
    }
    pub fn nonce<TC: Tcfg>(&self, nl: &NodeLabel, v: u64, value: &[u8]) -> Vec<u8> {
        TC::get_commitment_nonce(&TC::hash(&self.key), nl, v, &AkdValue(value.to_vec())).to_vec()
    }
    /// the server's own membership proof generator (for an absent label this is the proof of the deepest prefix node)
    pub async fn membership<TC: Tcfg>(&self, nl: NodeLabel) -> MembershipProof {
        self.azks.get_membership_proof::<TC, _>(self.st, nl).await.expect("membership proof generation")
    }
    /// every non-membership candidate for `nl`: the server's generator output, and one anchored at every node of the path
    pub async fn absences<TC: Tcfg>(&self, nl: NodeLabel) -> Vec<NonMembershipProof> {
        let mut out = vec![];
        if let Ok(p) = self.azks.get_non_membership_proof::<TC, _>(self.st, nl).await {
            out.push(p);
        }
        // the same 256 bits claimed with a shorter length: (val, 255) is not a node of the tree even when (val, 256) is,
        // so a perfectly valid non-membership proof exists for it - it must not pass as a statement about the 256-bit label
        for len in [255u32, 248] {
            for short in [NodeLabel::new(nl.label_val, len), nl.get_prefix(len)] {
                if let Ok(p) = self.azks.get_non_membership_proof::<TC, _>(self.st, short).await {
                    if !out.contains(&p) {
                        out.push(p);
                    }
                }
            }
        }
        let t = self.tree();
        let path = t.path(nl).await;
        for i in (0..path.len()).rev() {
            let p = t.nonmembership_at::<TC>(&path, i, nl).await;
            if !out.contains(&p) {
                out.push(p);
            }
        }
        out
    }
    /// a lookup proof claiming `ver` (value, epoch as given) with the chosen freshness proof
    pub async fn lookup_proof<TC: Tcfg>(&self, label: &[u8], ver: &MVersion, freshness: NonMembershipProof) -> LookupProof {
        let v = ver.version;
        let nl = self.node_label::<TC>(label, true, v).await;
        let marker = 1u64 << (63 - v.max(1).leading_zeros());
        let mnl = self.node_label::<TC>(label, true, marker).await;
        LookupProof {
            epoch: ver.epoch,
            value: AkdValue(ver.value.clone()),
            version: v,
            existence_vrf_proof: self.vrf_proof::<TC>(label, true, v).await,
            existence_proof: self.membership::<TC>(nl).await,
            marker_vrf_proof: self.vrf_proof::<TC>(label, true, marker).await,
            marker_proof: self.membership::<TC>(mnl).await,
            freshness_vrf_proof: self.vrf_proof::<TC>(label, false, v).await,
            freshness_proof: freshness,
            commitment_nonce: self.nonce::<TC>(&nl, v, &ver.value),
        }
    }
    pub async fn update_proof<TC: Tcfg>(&self, label: &[u8], ver: &MVersion) -> UpdateProof {
        let v = ver.version;
        let nl = self.node_label::<TC>(label, true, v).await;
        let (pvp, pp) = if v > 1 {
            let snl = self.node_label::<TC>(label, false, v - 1).await;
            (Some(self.vrf_proof::<TC>(label, false, v - 1).await), Some(self.membership::<TC>(snl).await))
        } else {
            (None, None)
        };
        UpdateProof {
            epoch: ver.epoch,
            value: AkdValue(ver.value.clone()),
            version: v,
            existence_vrf_proof: self.vrf_proof::<TC>(label, true, v).await,
            existence_proof: self.membership::<TC>(nl).await,
            previous_version_vrf_proof: pvp,
            previous_version_proof: pp,
            commitment_nonce: self.nonce::<TC>(&nl, v, &ver.value),
        }
    }
    /// history proof for the given versions (newest first) with the marker proofs the verifier
    /// will ask for; `absence_choice` selects which candidate absence proof is used for future markers
    pub async fn history_proof<TC: Tcfg>(&self, label: &[u8], versions: &[MVersion], epoch: u64, absence_choice: usize) -> HistoryProof {
        let mut update_proofs = vec![];
        for v in versions {
            update_proofs.push(self.update_proof::<TC>(label, v).await);
        }
        let start = versions.iter().map(|v| v.version).min().unwrap_or(1).max(1);
        let end = versions.iter().map(|v| v.version).max().unwrap_or(1).max(1);
        let (past, future) = if end <= epoch { akd_core::utils::get_marker_versions(start, end, epoch) } else { (vec![], vec![]) };
        let mut hp = HistoryProof { update_proofs, past_marker_vrf_proofs: vec![], existence_of_past_marker_proofs: vec![], future_marker_vrf_proofs: vec![], non_existence_of_future_marker_proofs: vec![] };
        for v in past {
            let nl = self.node_label::<TC>(label, true, v).await;
            hp.past_marker_vrf_proofs.push(self.vrf_proof::<TC>(label, true, v).await);
            hp.existence_of_past_marker_proofs.push(self.membership::<TC>(nl).await);
        }
        for v in future {
            let nl = self.node_label::<TC>(label, true, v).await;
            hp.future_marker_vrf_proofs.push(self.vrf_proof::<TC>(label, true, v).await);
            let abs = self.absences::<TC>(nl).await;
            hp.non_existence_of_future_marker_proofs.push(abs[absence_choice % abs.len()].clone());
        }
        hp
    }
}

/// A dishonest publish through the public API: inserts exactly the given leaves as one new epoch
/// and writes the given value states. Returns the new epoch.
pub async fn raw_publish<TC: Tcfg, S: Database + 'static>(st: &StorageManager<S>, leaves: Vec<(NodeLabel, AzksValue)>, states: Vec<ValueState>) -> Result<u64, String> {
    let mut azks = match st.get::<Azks>(&akd::append_only_zks::DEFAULT_AZKS_KEY).await {
        Ok(DbRecord::Azks(a)) => a,
        other => return Err(format!("no epoch record: {other:?}")),
    };
    let elems: Vec<AzksElement> = leaves.into_iter().map(|(label, value)| AzksElement { label, value }).collect();
    azks.batch_insert_nodes::<TC, _>(st, elems, InsertMode::Directory, akd::AzksParallelismConfig::disabled()).await.map_err(|e| format!("{e:?}"))?;
    let mut recs: Vec<DbRecord> = states.into_iter().map(DbRecord::ValueState).collect();
    recs.push(DbRecord::Azks(azks.clone()));
    st.batch_set(recs).await.map_err(|e| format!("{e:?}"))?;
    Ok(azks.latest_epoch)
}
