//! Directory driving helpers shared by the directory-level checks.
use crate::engine::{Fail, R};
use crate::ensure;
use crate::model::{KeyVrf, Model, Tcfg, D};
use akd::append_only_zks::{AzksParallelismConfig, AzksParallelismOption};
use akd::directory::{Directory, ReadOnlyDirectory};
use akd::storage::memory::AsyncInMemoryDatabase;
use akd::storage::{Database, StorageManager};
use akd::{AkdLabel, AkdValue, EpochHash, HistoryParams, HistoryProof, HistoryVerificationParams, LookupProof, VerifyResult};
use serde::{Deserialize, Serialize};
use std::time::Duration;

pub type MemDb = AsyncInMemoryDatabase;

thread_local! {
    static RT: tokio::runtime::Runtime = tokio::runtime::Builder::new_current_thread().enable_time().build().unwrap();
}
/// run a future on this worker thread's current_thread runtime
pub fn block_on<F: std::future::Future>(f: F) -> F::Output {
    RT.with(|rt| rt.block_on(f))
}

#[derive(Serialize, Deserialize, Clone, Copy, Debug, PartialEq, Eq, Hash)]
pub enum CacheKind {
    None,
    Default,
    /// item lifetime in ms (must be > 1 or akd falls back to the default)
    ShortLife(u16),
    /// memory limit in bytes
    Tiny(u16),
    /// lifetime ms (0 = default 30 s), memory limit bytes (0 = none), clean frequency ms
    Custom(u16, u16, u16),
}
#[derive(Serialize, Deserialize, Clone, Copy, Debug, PartialEq, Eq, Hash)]
pub enum ParKind {
    Disabled,
    Default,
    Static(u8),
}
impl ParKind {
    pub fn cfg(self) -> AzksParallelismConfig {
        match self {
            ParKind::Disabled => AzksParallelismConfig::disabled(),
            ParKind::Default => AzksParallelismConfig::default(),
            ParKind::Static(n) => AzksParallelismConfig {
                insertion: AzksParallelismOption::Static(n as u32),
                preload: AzksParallelismOption::Static(n as u32),
            },
        }
    }
}
pub fn manager<S: Database>(db: S, cache: CacheKind) -> StorageManager<S> {
    match cache {
        CacheKind::None => StorageManager::new_no_cache(db),
        CacheKind::Default => StorageManager::new(db, None, None, None),
        CacheKind::ShortLife(ms) => {
            StorageManager::new(db, Some(Duration::from_millis(ms.max(2) as u64)), None, Some(Duration::from_millis(2)))
        }
        CacheKind::Tiny(bytes) => StorageManager::new(db, None, Some(bytes as usize), Some(Duration::from_millis(2))),
        CacheKind::Custom(life, limit, clean) => StorageManager::new(
            db,
            if life == 0 { None } else { Some(Duration::from_millis(life.max(2) as u64)) },
            if limit == 0 { None } else { Some(limit as usize) },
            Some(Duration::from_millis(clean.max(2) as u64)),
        ),
    }
}

pub fn akd_err<'a, E: std::fmt::Debug>(sig: &'a str, what: &'a str) -> impl FnOnce(E) -> Fail + 'a {
    move |e| Fail { sig: sig.to_string(), msg: format!("{what}: {e:?}") }
}

pub fn to_batch(b: &[(Vec<u8>, Vec<u8>)]) -> Vec<(AkdLabel, AkdValue)> {
    b.iter().map(|(l, v)| (AkdLabel(l.clone()), AkdValue(v.clone()))).collect()
}

pub type Dir<TC, S> = Directory<TC, S, KeyVrf>;
pub type RoDir<TC, S> = ReadOnlyDirectory<TC, S, KeyVrf>;

pub async fn new_dir<TC: Tcfg, S: Database + 'static>(st: StorageManager<S>, key: &[u8], par: ParKind) -> R<Dir<TC, S>> {
    Directory::<TC, S, KeyVrf>::new(st, KeyVrf(key.to_vec()), par.cfg()).await.map_err(akd_err("dir-new", "Directory::new failed"))
}
pub async fn new_ro<TC: Tcfg, S: Database + 'static>(st: StorageManager<S>, key: &[u8], par: ParKind) -> R<RoDir<TC, S>> {
    ReadOnlyDirectory::<TC, S, KeyVrf>::new(st, KeyVrf(key.to_vec()), par.cfg())
        .await
        .map_err(akd_err("ro-new", "ReadOnlyDirectory::new failed"))
}

/// publish on the real directory and on the model, compare outcome (C01 oracle core)
pub async fn publish_both<TC: Tcfg, S: Database + 'static>(dir: &Dir<TC, S>, m: &mut Model, batch: &[(Vec<u8>, Vec<u8>)], step: usize) -> R<bool> {
    publish_both_opt::<TC, S>(dir, m, batch, step, false).await
}

/// as `publish_both`; with `spawned` the publish call runs inside a spawned tokio task (as a server handling a request would)
pub async fn publish_both_opt<TC: Tcfg, S: Database + 'static>(dir: &Dir<TC, S>, m: &mut Model, batch: &[(Vec<u8>, Vec<u8>)], step: usize, spawned: bool) -> R<bool> {
    let before = (m.epoch, m.roots[m.epoch as usize]);
    let real = if spawned {
        let d = dir.clone();
        let b = to_batch(batch);
        match tokio::task::spawn(async move { d.publish(b).await }).await {
            Ok(r) => r,
            Err(e) => return crate::engine::fail("panic", format!("step {step}: publish task panicked: {e}")),
        }
    } else {
        dir.publish(to_batch(batch)).await
    };
    let exp = m.publish(batch);
    match (real, exp) {
        (Ok(eh), Ok((e, r))) => {
            ensure!(eh.0 == e, "publish-epoch", "step {step}: publish returned epoch {} but model says {e}", eh.0);
            ensure!(eh.1 == r, "publish-root", "step {step}: publish returned root {} for epoch {e}, model root {}", hex::encode(eh.1), hex::encode(r));
        }
        (Err(_), Err(())) => {}
        (Ok(eh), Err(())) => return crate::engine::fail("dup-accepted", format!("step {step}: batch with a repeated label accepted, returned epoch {}", eh.0)),
        (Err(e), Ok(_)) => return crate::engine::fail("publish-err", format!("step {step}: valid publish failed: {e:?}")),
    }
    let eh = dir.get_epoch_hash().await.map_err(akd_err("epoch-hash-err", "get_epoch_hash failed"))?;
    ensure!(
        eh.0 == m.epoch && eh.1 == m.roots[m.epoch as usize],
        "epoch-hash-mismatch",
        "step {step}: get_epoch_hash = ({}, {}) but model = ({}, {})",
        eh.0,
        hex::encode(eh.1),
        m.epoch,
        hex::encode(m.roots[m.epoch as usize])
    );
    Ok((m.epoch, m.roots[m.epoch as usize]) != before)
}

pub fn check_eh(eh: &EpochHash, m: &Model, what: &str) -> R {
    ensure!(eh.0 == m.epoch, "eh-epoch", "{what}: returned epoch {} but current epoch is {}", eh.0, m.epoch);
    ensure!(eh.1 == m.roots[m.epoch as usize], "eh-root", "{what}: returned root hash differs from model root of epoch {}", eh.0);
    Ok(())
}

pub fn verify_lookup<TC: Tcfg>(pk: &[u8], root: D, epoch: u64, label: &[u8], proof: LookupProof) -> Result<VerifyResult, String> {
    akd::client::lookup_verify::<TC>(pk, root, epoch, AkdLabel(label.to_vec()), proof).map_err(|e| format!("{e:?}"))
}
pub fn verify_history<TC: Tcfg>(
    pk: &[u8],
    root: D,
    epoch: u64,
    label: &[u8],
    proof: HistoryProof,
    params: HistoryParams,
    allow_missing: bool,
) -> Result<Vec<VerifyResult>, String> {
    let vp = if allow_missing {
        HistoryVerificationParams::AllowMissingValues { history_params: params }
    } else {
        HistoryVerificationParams::Default { history_params: params }
    };
    akd::client::key_history_verify::<TC>(pk, root, epoch, AkdLabel(label.to_vec()), proof, vp).map_err(|e| format!("{e:?}"))
}

pub fn public_key(key: &[u8]) -> Vec<u8> {
    use std::convert::TryFrom;
    let sk = akd::ecvrf::VRFPrivateKey::try_from(key).unwrap();
    let pk = akd::ecvrf::VRFPublicKey::from(&sk);
    pk.as_bytes().to_vec()
}

/// dispatch a generic async closure over both configurations
#[macro_export]
macro_rules! both_cfgs {
    ($f:ident ( $($arg:expr),* )) => {{
        $crate::dirx::block_on($f::<$crate::model::Wa>($($arg),*)).map_err(|mut e| { e.msg = format!("[WhatsAppV1] {}", e.msg); e })?;
        $crate::dirx::block_on($f::<$crate::model::Exp>($($arg),*)).map_err(|mut e| { e.msg = format!("[Experimental] {}", e.msg); e })?;
    }};
}

#[derive(Serialize, Deserialize, Clone, Copy, Debug, PartialEq, Eq, Hash)]
pub enum HP {
    Complete,
    MostRecent(usize),
}
impl HP {
    pub fn to(self) -> HistoryParams {
        match self {
            HP::Complete => HistoryParams::Complete,
            HP::MostRecent(n) => HistoryParams::MostRecent(n),
        }
    }
}

/// expected verified history (newest first) for a label at epoch e under parameter p
pub fn expected_history(m: &Model, label: &[u8], e: u64, p: HP) -> Vec<VerifyResult> {
    let mut v: Vec<VerifyResult> = m
        .versions_at(label, e)
        .into_iter()
        .rev()
        .map(|x| VerifyResult { epoch: x.epoch, version: x.version, value: AkdValue(x.value) })
        .collect();
    if let HP::MostRecent(n) = p {
        v.truncate(n);
    }
    v
}
pub fn expected_lookup(m: &Model, label: &[u8], e: u64) -> Option<VerifyResult> {
    m.latest_at(label, e).map(|x| VerifyResult { epoch: x.epoch, version: x.version, value: AkdValue(x.value) })
}

/// A directory + model pair driven step by step.
pub struct Sys<TC: Tcfg, S: Database + 'static> {
    pub dir: Dir<TC, S>,
    pub m: Model,
    pub key: Vec<u8>,
    pub pk: Vec<u8>,
}
impl<TC: Tcfg, S: Database + 'static> Sys<TC, S> {
    pub async fn new(st: StorageManager<S>, key_idx: u8, par: ParKind) -> R<Self> {
        let key = crate::model::key_bytes(key_idx);
        let dir = new_dir::<TC, S>(st, &key, par).await?;
        Ok(Sys { dir, m: Model::new(TC::CFG, &key), pk: public_key(&key), key })
    }
    pub async fn publish(&mut self, batch: &[(Vec<u8>, Vec<u8>)], step: usize) -> R<bool> {
        publish_both::<TC, S>(&self.dir, &mut self.m, batch, step).await
    }
}

/// uniform read interface over Directory and ReadOnlyDirectory
#[async_trait::async_trait(?Send)]
pub trait Reader {
    async fn r_lookup(&self, l: AkdLabel) -> Result<(LookupProof, EpochHash), akd::errors::AkdError>;
    async fn r_batch_lookup(&self, l: &[AkdLabel]) -> Result<(Vec<LookupProof>, EpochHash), akd::errors::AkdError>;
    async fn r_history(&self, l: &AkdLabel, p: HistoryParams) -> Result<(HistoryProof, EpochHash), akd::errors::AkdError>;
    async fn r_audit(&self, s: u64, e: u64) -> Result<akd::AppendOnlyProof, akd::errors::AkdError>;
    async fn r_epoch_hash(&self) -> Result<EpochHash, akd::errors::AkdError>;
}
#[async_trait::async_trait(?Send)]
impl<TC: Tcfg, S: Database + 'static> Reader for Dir<TC, S> {
    async fn r_lookup(&self, l: AkdLabel) -> Result<(LookupProof, EpochHash), akd::errors::AkdError> {
        self.lookup(l).await
    }
    async fn r_batch_lookup(&self, l: &[AkdLabel]) -> Result<(Vec<LookupProof>, EpochHash), akd::errors::AkdError> {
        self.batch_lookup(l).await
    }
    async fn r_history(&self, l: &AkdLabel, p: HistoryParams) -> Result<(HistoryProof, EpochHash), akd::errors::AkdError> {
        self.key_history(l, p).await
    }
    async fn r_audit(&self, s: u64, e: u64) -> Result<akd::AppendOnlyProof, akd::errors::AkdError> {
        self.audit(s, e).await
    }
    async fn r_epoch_hash(&self) -> Result<EpochHash, akd::errors::AkdError> {
        self.get_epoch_hash().await
    }
}
#[async_trait::async_trait(?Send)]
impl<TC: Tcfg, S: Database + 'static> Reader for RoDir<TC, S> {
    async fn r_lookup(&self, l: AkdLabel) -> Result<(LookupProof, EpochHash), akd::errors::AkdError> {
        self.lookup(l).await
    }
    async fn r_batch_lookup(&self, l: &[AkdLabel]) -> Result<(Vec<LookupProof>, EpochHash), akd::errors::AkdError> {
        self.batch_lookup(l).await
    }
    async fn r_history(&self, l: &AkdLabel, p: HistoryParams) -> Result<(HistoryProof, EpochHash), akd::errors::AkdError> {
        self.key_history(l, p).await
    }
    async fn r_audit(&self, s: u64, e: u64) -> Result<akd::AppendOnlyProof, akd::errors::AkdError> {
        self.audit(s, e).await
    }
    async fn r_epoch_hash(&self) -> Result<EpochHash, akd::errors::AkdError> {
        self.get_epoch_hash().await
    }
}
