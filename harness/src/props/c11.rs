//! C11 - a reader of a partially written commit still sees the previous epoch intact.
use crate::dirx::*;
use crate::engine::*;
use crate::gen::*;
use crate::model::*;
use crate::vdb::*;
use crate::{both_cfgs, ensure};
use akd::storage::types::DbRecord;
use akd::AkdLabel;
use proptest::prelude::*;
use serde::{Deserialize, Serialize};
use std::sync::atomic::Ordering;

#[derive(Serialize, Deserialize, Clone, Debug)]
pub struct Case {
    /// the last batch is the publish whose commit is interrupted
    pub hist: Hist,
    pub par: ParKind,
    /// random subsets of the commit's records (bit masks, cyclic)
    pub subsets: Vec<u64>,
}
#[derive(Default)]
pub struct Stats {
    nontrivial: Vec<(usize, u8)>,
    crash_points: u64,
    partial_with_previous: u64,
    records: u64,
    readers: u64,
}

/// all reads a client can make, against the model at epoch `m.epoch`
async fn reader_checks<TC: Tcfg>(rd: &dyn Reader, m: &Model, pk: &[u8], labels: &[Vec<u8>], rot: usize, all: bool, what: &str) -> R {
    let eh = rd.r_epoch_hash().await.map_err(akd_err("reader-epoch-hash-err", what))?;
    let e = m.epoch;
    let root = m.roots[e as usize];
    ensure!(eh.0 == e && eh.1 == root, "reader-epoch-hash", "{what}: reports epoch {} (root {}), expected epoch {e} with the model's root", eh.0, hex::encode(eh.1));
    let n = if all { labels.len() } else { 3.min(labels.len()) };
    for j in 0..n {
        let l = &labels[(rot + j) % labels.len()];
        match expected_lookup(m, l, e) {
            Some(exp) => {
                let (p, leh) = rd.r_lookup(AkdLabel(l.clone())).await.map_err(|err| Fail { sig: "reader-lookup-err".into(), msg: format!("{what}: lookup of {} failed: {err:?}", hex::encode(l)) })?;
                ensure!(leh.0 == e && leh.1 == root, "reader-lookup-epoch", "{what}: lookup names ({}, {})", leh.0, hex::encode(leh.1));
                let r = verify_lookup::<TC>(pk, root, e, l, p);
                ensure!(r.as_ref().ok() == Some(&exp), "reader-lookup-result", "{what}: lookup of {} verifies to {r:?}, the model at epoch {e} says {exp:?}", hex::encode(l));
                for hpar in [HP::Complete, HP::MostRecent(1), HP::MostRecent(2)] {
                    let (hp, heh) = rd.r_history(&AkdLabel(l.clone()), hpar.to()).await.map_err(|err| Fail { sig: "reader-history-err".into(), msg: format!("{what}: key_history ({hpar:?}) of {} failed: {err:?}", hex::encode(l)) })?;
                    ensure!(heh.0 == e && heh.1 == root, "reader-history-epoch", "{what}: history names epoch {}", heh.0);
                    let hr = verify_history::<TC>(pk, root, e, l, hp, hpar.to(), false);
                    ensure!(hr.as_ref().ok() == Some(&expected_history(m, l, e, hpar)), "reader-history-result", "{what}: history ({hpar:?}) of {} verifies to {hr:?}", hex::encode(l));
                }
            }
            None => {
                ensure!(rd.r_lookup(AkdLabel(l.clone())).await.is_err(), "reader-sees-unfinished-label", "{what}: label {} exists only in the unfinished epoch but a lookup proof was returned", hex::encode(l));
                ensure!(rd.r_history(&AkdLabel(l.clone()), HP::Complete.to()).await.is_err(), "reader-sees-unfinished-label", "{what}: label {} exists only in the unfinished epoch but a history proof was returned", hex::encode(l));
            }
        }
    }
    // audits: newest step, full range, and one inner range
    let mut ranges = vec![];
    if e >= 1 {
        ranges.push((e - 1, e));
        ranges.push((0, e));
    }
    if e >= 3 {
        ranges.push((1, e - 1));
    }
    for (s, t) in ranges {
        let ap = rd.r_audit(s, t).await.map_err(|err| Fail { sig: "reader-audit-err".into(), msg: format!("{what}: audit({s},{t}) failed: {err:?}") })?;
        akd::auditor::audit_verify::<TC>(m.roots[s as usize..=t as usize].to_vec(), ap).await.map_err(|err| Fail { sig: "reader-audit-verify".into(), msg: format!("{what}: audit({s},{t}) does not verify: {err:?}") })?;
    }
    ensure!(rd.r_audit(e, e + 1).await.is_err(), "reader-audits-unfinished-epoch", "{what}: audit({e},{}) of the unfinished epoch was not refused", e + 1);
    Ok(())
}

async fn run_cfg<TC: Tcfg>(case: &Case, st: &mut Stats) -> R {
    let key = key_bytes(case.hist.key);
    let pk = public_key(&key);
    let (mut batches, _) = case.hist.resolve();
    let mut target = batches.pop().unwrap_or_default();
    let mut seen = std::collections::HashSet::new();
    target.retain(|(l, _)| seen.insert(l.clone()));
    target.push((b"c11-new-label".to_vec(), b"fresh".to_vec()));
    // writer: prefix applied normally, target commit captured and NOT written
    let vdb = VDb::new();
    let mut m = Model::new(TC::CFG, &key);
    let w = new_dir::<TC, _>(manager(vdb.clone(), CacheKind::None), &key, case.par).await?;
    for (i, b) in batches.iter().enumerate() {
        publish_both::<TC, _>(&w, &mut m, b, i).await?;
    }
    let pre = snapshot(&vdb.inner).await;
    let mut m_next = Model::new(TC::CFG, &key);
    for b in &batches {
        let _ = m_next.publish(b);
    }
    let exp_next = m_next.publish(&target).map_err(|_| Fail { sig: "harness".into(), msg: "invalid target".into() })?;
    vdb.ctl.capture.store(true, Ordering::SeqCst);
    vdb.ctl.capture_apply.store(false, Ordering::SeqCst);
    let eh = w.publish(to_batch(&target)).await.map_err(akd_err("publish-err", "target publish"))?;
    ensure!((eh.0, eh.1) == exp_next, "publish-root", "target publish returned a pair different from the model");
    let cap = vdb.ctl.captured.lock().unwrap().clone();
    ensure!(!cap.is_empty(), "commit-batches", "publish wrote nothing");
    // one or several writes: in the order issued
    let batch: Vec<DbRecord> = cap.iter().flatten().cloned().collect();
    ensure!(matches!(batch.last(), Some(DbRecord::Azks(_))) && batch.iter().filter(|r| matches!(r, DbRecord::Azks(_))).count() == 1, "commit-azks-last", "the epoch record is not the (single) last record of the commit batch");
    ensure!(snapshot(&vdb.inner).await == pre, "harness", "capture mode wrote to the database");
    let azks_rec = batch.last().unwrap().clone();
    let mut recs: Vec<DbRecord> = batch[..batch.len() - 1].to_vec();
    recs.sort_by_key(|r| r.get_full_binary_id());
    st.records += recs.len() as u64;
    let has_prev = |r: &DbRecord| matches!(r, DbRecord::TreeNode(t) if t.previous_node.is_some());
    // crash points: all prefixes in key order and in reverse key order, generated subsets
    let n = recs.len();
    let mut points: Vec<(String, Vec<usize>)> = vec![];
    for k in 0..=n {
        points.push((format!("first {k} of {n} records in key order"), (0..k).collect()));
        if k > 0 && k < n {
            points.push((format!("first {k} of {n} records in reverse key order"), (n - k..n).collect()));
        }
    }
    for (j, mask) in case.subsets.iter().enumerate() {
        let idx: Vec<usize> = (0..n).filter(|i| (mask.rotate_left((*i as u32 / 64) * 7) >> (i % 64)) & 1 == 1).collect();
        points.push((format!("generated subset #{j} ({} of {n} records)", idx.len()), idx));
    }
    let mut labels: Vec<Vec<u8>> = case.hist.labels.clone();
    labels.push(b"c11-new-label".to_vec());
    labels.sort();
    labels.dedup();
    for (pi, (desc, idx)) in points.iter().enumerate() {
        st.crash_points += 1;
        let written: Vec<DbRecord> = idx.iter().map(|i| recs[*i].clone()).collect();
        if !idx.is_empty() && idx.len() < n && written.iter().any(has_prev) {
            st.partial_with_previous += 1;
            st.nontrivial.push((pi, TC::CFG as u8));
        }
        let mut content = pre.clone();
        content.retain(|r| !written.iter().any(|wr| wr.get_full_binary_id() == r.get_full_binary_id()));
        content.extend(written.iter().cloned());
        let db = restore(&content).await;
        let all = pi % 5 == 0;
        // reader 1: read-only directory without cache
        let ro = new_ro::<TC, _>(manager(db.clone(), CacheKind::None), &key, ParKind::Disabled).await?;
        st.readers += 2;
        let what = format!("crash point: {desc}; read-only instance, no cache");
        reader_checks::<TC>(&ro, &m, &pk, &labels, pi, all, &what).await?;
        // reader 2: a fresh full directory with a new cache
        let d2 = new_dir::<TC, _>(manager(db.clone(), CacheKind::Default), &key, case.par).await?;
        let what = format!("crash point: {desc}; fresh directory instance with cache");
        reader_checks::<TC>(&d2, &m, &pk, &labels, pi + 1, all, &what).await?;
    }
    // with the epoch record written the new epoch is served completely
    let mut content = pre.clone();
    content.retain(|r| !batch.iter().any(|wr| wr.get_full_binary_id() == r.get_full_binary_id()));
    content.extend(recs.iter().cloned());
    content.push(azks_rec);
    let db = restore(&content).await;
    let ro = new_ro::<TC, _>(manager(db.clone(), CacheKind::Default), &key, ParKind::Disabled).await?;
    let what = "complete commit including the epoch record".to_string();
    reader_checks::<TC>(&ro, &m_next, &pk, &labels, 0, true, &what).await?;
    Ok(())
}

pub fn check(case: &Case, ctx: &mut Ctx) -> R {
    let mut st = Stats::default();
    let r = (|| {
        both_cfgs!(run_cfg(case, &mut st));
        Ok(())
    })();
    ctx.count("crash_points", st.crash_points);
    ctx.count("partial_crash_points_with_a_rewritten_node", st.partial_with_previous);
    ctx.count("commit_records", st.records);
    ctx.count("reader_instances", st.readers);
    // every crash point is one execution; distinct non-trivial = distinct (case, configuration, crash point) that is partial and contains a rewritten node
    if ctx.counting {
        ctx.evals += st.crash_points.saturating_sub(1);
    }
    let cfp = fp_json(case);
    for x in &st.nontrivial {
        ctx.nontrivial(fp(&(cfp, x)));
    }
    if st.partial_with_previous > 0 {
        ctx.sample(case);
    }
    r
}

pub fn strategy(thorough: bool) -> impl Strategy<Value = Case> {
    let max_e = if thorough { 7 } else { 5 };
    (
        prop_oneof![2 => hist_strategy(2, max_e, 6, 8), 1 => deep_hist_strategy(max_e)],
        prop_oneof![Just(ParKind::Disabled), Just(ParKind::Default)],
        proptest::collection::vec(any::<u64>(), if thorough { 20 } else { 8 }),
    )
        .prop_map(|(hist, par, subsets)| Case { hist, par, subsets })
}

pub fn run(eng: &mut Engine) {
    let thorough = eng.tier == Tier::Thorough;
    eng.level = "fault_enumeration".into();
    eng.max_shrink = Some(60);
    eng.assume("record-level atomicity of the storage layer (as akd documents); the epoch record is written last (asserted on the captured batch)");
    eng.prop_part(
        "crash_points",
        "generated histories whose last publish creates, splits and updates nodes; its commit batch is captured instead of written; crash points = every prefix of the non-epoch records in key order and in reverse key order + generated subsets, each applied to a copy of the pre-publish database; a fresh ReadOnlyDirectory (no cache) and a fresh Directory (new cache) must report the model's previous (epoch, root) and serve lookups, histories and audits equal to the model at that epoch, labels of the unfinished epoch unknown; finally the complete batch must serve the new epoch; evaluations = crash points; non-trivial = partial crash point containing a rewritten node (one with a previous version), distinct by (case, configuration, crash point)",
        eng.tier.pick(250, 4000),
        move || strategy(thorough),
        check,
    );
}
