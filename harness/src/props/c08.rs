//! C08 - lookup and history verifiers agree on a label's latest version under one root.
use crate::dirx::*;
use crate::engine::*;
use crate::ensure;
use crate::forge::*;
use crate::model::*;
use akd::storage::memory::AsyncInMemoryDatabase;
use akd::storage::types::ValueState;
use akd::{AkdLabel, AkdValue, AzksValue};
use akd_core::utils::get_marker_versions;
use proptest::prelude::*;
use serde::{Deserialize, Serialize};
use serde_json::{json, Value};
use std::collections::BTreeSet;

pub const KNOWN_SIG: &str = "complete-history(n)-x-lookup(m>n)-marker-gap";

/// What an accepted proof shows about the tree, derived from the verifier code:
/// history over versions s..=n at epoch E: fresh s..n present, stale max(s-1,1)..n-1 present,
/// fresh P(s,n,E) present, fresh F(s,n,E) absent; lookup of m: fresh m and fresh 2^floor(log2 m)
/// present, stale m absent.
#[derive(Clone, Debug, Default)]
pub struct Shows {
    pub fresh_range: Option<(u64, u64)>,
    pub fresh_extra: Vec<u64>,
    pub stale_range: Option<(u64, u64)>,
    pub fresh_absent: Vec<u64>,
    pub stale_absent: Vec<u64>,
}
impl Shows {
    pub fn history(s: u64, n: u64, e: u64) -> Shows {
        let (p, f) = get_marker_versions(s, n, e);
        Shows { fresh_range: Some((s, n)), fresh_extra: p, stale_range: if n >= 2 { Some((s.saturating_sub(1).max(1), n - 1)) } else { None }, fresh_absent: f, stale_absent: vec![] }
    }
    pub fn lookup(m: u64) -> Shows {
        Shows { fresh_range: Some((m, m)), fresh_extra: vec![1u64 << (63 - m.leading_zeros())], stale_range: None, fresh_absent: vec![], stale_absent: vec![m] }
    }
    fn fresh_present(&self, v: u64) -> bool {
        self.fresh_range.map(|(a, b)| a <= v && v <= b).unwrap_or(false) || self.fresh_extra.contains(&v)
    }
    fn stale_present(&self, v: u64) -> bool {
        self.stale_range.map(|(a, b)| a <= v && v <= b).unwrap_or(false)
    }
    /// can one tree satisfy both? (no version that one shows absent and the other shows present)
    pub fn compatible(&self, o: &Shows) -> bool {
        !(self.fresh_absent.iter().any(|v| o.fresh_present(*v))
            || o.fresh_absent.iter().any(|v| self.fresh_present(*v))
            || self.stale_absent.iter().any(|v| o.stale_present(*v))
            || o.stale_absent.iter().any(|v| self.stale_present(*v)))
    }
    pub fn fresh_set(&self) -> BTreeSet<u64> {
        let mut s: BTreeSet<u64> = self.fresh_extra.iter().cloned().collect();
        if let Some((a, b)) = self.fresh_range {
            s.extend(a..=b);
        }
        s
    }
    pub fn stale_set(&self) -> BTreeSet<u64> {
        self.stale_range.map(|(a, b)| (a..=b).collect()).unwrap_or_default()
    }
}

/// FROZEN transcription of today's future-marker rule (akd_core::utils::get_marker_versions at the
/// pinned commit), used ONLY to delimit the known finding: a change that shrinks the real marker
/// set creates failures this reference does not excuse.
pub fn fref_future(end: u64, epoch: u64) -> Vec<u64> {
    const SKIP: [u64; 7] = [1, 2, 4, 16, 256, 65536, 1 << 32];
    let idx = |x: u64| SKIP.iter().rposition(|s| *s <= x).unwrap_or(0);
    let mut out = vec![];
    let bits = 64 - end.leading_zeros() as u64;
    let mut fv = end;
    for i in 0..bits {
        let sh = 1u64 << i;
        if end & sh == 0 {
            fv |= sh;
            fv &= !(sh - 1);
            if fv <= epoch {
                out.push(fv);
            }
        }
    }
    let slice = &SKIP[idx(end) + 1..(idx(epoch) + 1).max(idx(end) + 1)];
    let (lo, hi) = (64 - end.leading_zeros() as u64, 63 - epoch.leading_zeros() as u64);
    for i in lo..=hi {
        if i >= 64 {
            break;
        }
        let v = 1u64 << i;
        if !slice.is_empty() && v >= slice[0] {
            break;
        }
        out.push(v);
    }
    out.extend_from_slice(slice);
    out
}
fn known_shape(n: u64, m: u64, e: u64) -> bool {
    let f = fref_future(n, e);
    m > n && !f.contains(&m) && !f.contains(&(1u64 << (63 - m.leading_zeros())))
}

#[derive(Serialize, Deserialize, Clone, Debug, PartialEq)]
pub enum Pair {
    /// history over s..n against history over s2..m
    HH { e: u64, s: u64, n: u64, s2: u64, m: u64 },
    /// complete history 1..n against lookup of m
    HL { e: u64, n: u64, m: u64 },
}
impl Pair {
    fn shows(&self) -> (Shows, Shows) {
        match *self {
            Pair::HH { e, s, n, s2, m } => (Shows::history(s, n, e), Shows::history(s2, m, e)),
            Pair::HL { e, n, m } => (Shows::history(1, n, e), Shows::lookup(m)),
        }
    }
    fn valid(&self) -> bool {
        match *self {
            Pair::HH { e, s, n, s2, m } => 1 <= s && s <= n && n <= e && 1 <= s2 && s2 <= m && m <= e && n != m,
            Pair::HL { e, n, m } => 1 <= n && n <= e && 1 <= m && m <= e && n != m,
        }
    }
}
/// Ok(true) = conflict guaranteed (property holds for the pair); Ok(false) = excused known finding
pub fn judge_pair(p: &Pair) -> R<bool> {
    let (a, b) = p.shows();
    if !a.compatible(&b) {
        return Ok(true);
    }
    if let Pair::HL { e, n, m } = *p {
        if known_shape(n, m, e) {
            ensure!(known_hit(KNOWN_SIG), KNOWN_SIG, "{p:?}: a complete history with latest version {n} and a lookup of version {m} can both verify under one root at epoch {e} (future markers of {n}: {:?})", a.fresh_absent);
            return Ok(false);
        }
    }
    fail("verifiers-can-disagree", format!("{p:?}: nothing that one accepted proof shows absent (fresh {:?}, stale {:?}) is shown present by the other (and vice versa: fresh {:?}, stale {:?}) - both can verify under one root with different latest versions", a.fresh_absent, a.stale_absent, b.fresh_absent, b.stale_absent))
}

// ------------------------------------------------------------------ real trees
#[derive(Default)]
pub struct TreeStats {
    both_verified: u64,
    a_only: u64,
    b_only: u64,
    none: u64,
    gapped: u64,
}
/// When the dishonest server creates the versions: nothing forces it to create one version per epoch.
#[derive(Serialize, Deserialize, Clone, Copy, Debug, PartialEq)]
pub enum Sched {
    /// version v created at epoch v (what an honest history of one update per epoch looks like)
    Diagonal,
    /// version v created at epoch max(v, k): the first k versions appear together at epoch k
    From(u16),
    /// every version created in one single epoch k (k = E: everything committed in the epoch the proofs are checked against)
    AllAt(u16),
    /// d versions per epoch: version v created at epoch ceil(v/d)
    Compress(u8),
}
impl Sched {
    pub fn created(&self, v: u64, e: u64) -> u64 {
        let k = |s: u16| 1 + sel(s, e as usize) as u64;
        match *self {
            Sched::Diagonal => v,
            Sched::From(s) => v.max(k(s)),
            Sched::AllAt(s) => k(s),
            Sched::Compress(d) => (v + d.max(1) as u64 - 1) / d.max(1) as u64,
        }
        .clamp(1, e)
    }
}
pub fn sched_strategy() -> impl Strategy<Value = Sched> {
    prop_oneof![
        3 => Just(Sched::Diagonal),
        2 => any::<u16>().prop_map(Sched::From),
        1 => Just(Sched::From(u16::MAX)),
        1 => any::<u16>().prop_map(Sched::AllAt),
        1 => Just(Sched::AllAt(u16::MAX)),
        1 => (2u8..5).prop_map(Sched::Compress),
    ]
}

/// A dishonest server builds a tree with exactly the leaves both proofs need, assembles both
/// proofs and the real verifiers decide. Returns (history A verified, second proof verified).
pub async fn replay_on_tree<TC: Tcfg>(p: &Pair, sched: Sched, gap: Option<(u64, u64)>) -> R<(bool, bool)> {
    let c = TC::CFG;
    let key = hard_key();
    let pk = public_key(&key);
    let label = b"c08-label".to_vec();
    let (a, b) = p.shows();
    let e = match *p {
        Pair::HH { e, .. } | Pair::HL { e, .. } => e,
    };
    let stm = manager(AsyncInMemoryDatabase::new(), CacheKind::None);
    let _d = new_dir::<TC, _>(stm.clone(), &key, ParKind::Disabled).await?;
    let (sa, na) = match *p {
        Pair::HH { s, n, .. } => (s, n),
        Pair::HL { n, .. } => (1, n),
    };
    // the version list history A presents: s..=n, or (dishonest) the same with the versions lo..=hi strictly inside left out
    let list_a: Vec<u64> = (sa..=na).rev().filter(|v| gap.map(|(lo, hi)| *v < lo || *v > hi).unwrap_or(true)).collect();
    let (a_fresh, a_stale): (BTreeSet<u64>, BTreeSet<u64>) = match gap {
        None => (a.fresh_set(), a.stale_set()),
        Some(_) => (list_a.iter().cloned().chain(a.fresh_extra.iter().cloned()).collect(), list_a.iter().filter(|v| **v > 1).map(|v| v - 1).collect()),
    };
    let fresh: BTreeSet<u64> = a_fresh.union(&b.fresh_set()).cloned().collect();
    let stale: BTreeSet<u64> = a_stale.union(&b.stale_set()).cloned().collect();
    let value = |v: u64| format!("value-{v}").into_bytes();
    let fg0 = Forger::new(&stm, &key).await;
    let ckey = h(c, &[&key]);
    let mut leaves: std::collections::BTreeMap<[u8; 32], (D, u64)> = Default::default();
    for ep in 1..=e {
        // version v is created at epoch created(v); version v-1 is retired when version v is created
        let mut ls = vec![];
        let mut states = vec![];
        for &v in fresh.iter().filter(|v| sched.created(**v, e) == ep) {
            let nl = fg0.node_label::<TC>(&label, true, v).await;
            let cm = commitment(c, &ckey, &nl.label_val, v, &value(v));
            ls.push((nl, AzksValue(cm)));
            leaves.insert(nl.label_val, (cm, ep));
            states.push(ValueState { value: AkdValue(value(v)), version: v, label: nl, epoch: ep, username: AkdLabel(label.clone()) });
        }
        for &v in stale.iter().filter(|v| sched.created(**v + 1, e) == ep) {
            let nl = fg0.node_label::<TC>(&label, false, v).await;
            ls.push((nl, AzksValue(stale_value(c))));
            leaves.insert(nl.label_val, (stale_value(c), ep));
        }
        // a bystander leaf keeps the tree from being trivial
        if ep == 1 {
            let nl = fg0.node_label::<TC>(b"c08-bystander", true, 1).await;
            ls.push((nl, AzksValue([3u8; 32])));
            leaves.insert(nl.label_val, ([3u8; 32], 1));
        }
        raw_publish::<TC, _>(&stm, ls, states).await.map_err(|x| Fail { sig: "raw-publish-err".into(), msg: x })?;
    }
    let root = model_root(c, &leaves);
    let fg = Forger::new(&stm, &key).await;
    ensure!(fg.azks.latest_epoch == e, "harness", "dishonest tree is at epoch {} instead of {e}", fg.azks.latest_epoch);
    let mv = |v: u64| MVersion { version: v, value: value(v), epoch: sched.created(v, e) };
    let hist = |s: u64, n: u64| -> Vec<MVersion> { (s..=n).rev().map(mv).collect() };
    let hist_a: Vec<MVersion> = list_a.iter().map(|v| mv(*v)).collect();
    let (ok_a, ok_b) = match *p {
        Pair::HH { s, n, s2, m, .. } => {
            let pa = fg.history_proof::<TC>(&label, &hist_a, e, 0).await;
            let pb = fg.history_proof::<TC>(&label, &hist(s2, m), e, 0).await;
            let ra = verify_history::<TC>(&pk, root, e, &label, pa, HP::MostRecent((n - s + 1) as usize).to(), false);
            let rb = verify_history::<TC>(&pk, root, e, &label, pb, HP::MostRecent((m - s2 + 1) as usize).to(), false);
            (ra.map(|l| l[0].version == n).unwrap_or(false), rb.map(|l| l[0].version == m).unwrap_or(false))
        }
        Pair::HL { n, m, .. } => {
            let pa = fg.history_proof::<TC>(&label, &hist_a, e, 0).await;
            let snl = fg.node_label::<TC>(&label, false, m).await;
            let abs = fg.absences::<TC>(snl).await;
            let pb = fg.lookup_proof::<TC>(&label, &mv(m), abs[0].clone()).await;
            let ra = verify_history::<TC>(&pk, root, e, &label, pa, HP::Complete.to(), false);
            let rb = verify_lookup::<TC>(&pk, root, e, &label, pb);
            (ra.map(|l| l[0].version == n).unwrap_or(false), rb.map(|r| r.version == m).unwrap_or(false))
        }
    };
    Ok((ok_a, ok_b))
}

async fn tree_check<TC: Tcfg>(p: &Pair, sched: Sched, gap: Option<(u64, u64)>, st: &mut TreeStats) -> R {
    let (a, b) = replay_on_tree::<TC>(p, sched, gap).await?;
    match (a, b) {
        (true, true) => st.both_verified += 1,
        (true, false) => st.a_only += 1,
        (false, true) => st.b_only += 1,
        _ => st.none += 1,
    }
    let (sa, sb) = p.shows();
    let compat = sa.compatible(&sb);
    if let Some((lo, hi)) = gap {
        // a history with versions left out must never verify at all, let alone next to a proof with another latest version
        ensure!(!(a && b), "verifiers-disagree-on-real-tree", "{p:?} ({sched:?}), history A presented WITHOUT versions {lo}..={hi}: on a real tree built by a dishonest server BOTH proofs verify under the same epoch and root with different latest versions");
        st.gapped += 1;
        return Ok(());
    }
    if a && b {
        // both real verifiers accepted different latest versions under one root
        if let Pair::HL { e, n, m } = *p {
            if known_shape(n, m, e) && known_hit(KNOWN_SIG) {
                return Ok(());
            }
        }
        return fail(if compat { "verifiers-can-disagree" } else { "verifiers-disagree-on-real-tree" }, format!("{p:?} ({sched:?}): on a real tree built by a dishonest server BOTH proofs verify under the same epoch and root with different latest versions (abstract analysis predicted compatible={compat})"));
    }
    // the abstract analysis must not be more pessimistic than the real verifiers either: when it predicts that both can
    // verify, the dishonest server must indeed succeed (keeps the 'shows' sets honest)
    ensure!(!compat, "shows-sets-too-weak", "{p:?} ({sched:?}): abstract analysis predicts that both proofs can verify, but on the real tree history={a} second={b}");
    // each proof alone must be satisfiable by a dishonest server (otherwise the 'shows' sets demand too little / the forger is broken)
    Ok(())
}

pub fn pair_strategy(max_e: u64) -> impl Strategy<Value = Pair> {
    (2..=max_e, any::<u16>(), any::<u16>(), any::<u16>(), any::<u16>(), any::<bool>()).prop_filter_map("n != m", |(e, a, b, c, d, hl)| {
        let n = 1 + sel(a, e as usize) as u64;
        let m = 1 + sel(b, e as usize) as u64;
        if n == m {
            return None;
        }
        let s = 1 + sel(c, n as usize) as u64;
        let s2 = 1 + sel(d, m as usize) as u64;
        Some(if hl { Pair::HL { e, n, m } } else { Pair::HH { e, s, n, s2, m } })
    })
}
/// large values clustered around powers of two and the skip-list entries
pub fn big_version() -> impl Strategy<Value = u64> {
    prop_oneof![
        4 => (1u32..63, 0u64..5).prop_map(|(k, d)| (1u64 << k).wrapping_add(d).wrapping_sub(2).max(1)),
        2 => prop_oneof![Just(2u64), Just(4), Just(16), Just(256), Just(65536), Just(1 << 32)].prop_flat_map(|b| (Just(b), 0u64..4)).prop_map(|(b, d)| (b + d).saturating_sub(2).max(1)),
        2 => 1u64..5000,
        1 => any::<u64>().prop_map(|v| v.max(1)),
    ]
}

pub fn run(eng: &mut Engine) {
    let max_e: u64 = eng.tier.pick(48, 96);
    eng.assume("what an accepted proof 'shows' is transcribed from the verifier code (history.rs / lookup.rs) and cross-checked against the real verifiers on real trees built by a dishonest server");
    eng.assume("P and F come from akd_core::utils::get_marker_versions (the unit under test); the known finding is delimited by a frozen transcription of today's future-marker rule");
    // ---- part 1: bounded-exhaustive
    eng.enum_part(
        "exhaustive",
        "EXHAUSTIVE for every epoch E up to the bound: all history ranges [s,n] x [s2,m] with n != m (each admitted by Complete or MostRecent(n-s+1)), and all complete-history(n) x lookup(m != n) pairs; oracle = something one proof shows absent/retired is shown present/not retired by the other; non-trivial = n and m both not powers of two and |n-m| >= 2",
        true,
        (1..=max_e).collect::<Vec<u64>>(),
        |&e, ctx| {
            let mut hs: Vec<(u64, u64, Shows)> = vec![];
            for n in 1..=e {
                for s in 1..=n {
                    hs.push((s, n, Shows::history(s, n, e)));
                }
            }
            let nt = |n: u64, m: u64| !n.is_power_of_two() && !m.is_power_of_two() && n.abs_diff(m) >= 2;
            for (i, (s, n, a)) in hs.iter().enumerate() {
                for (s2, m, b) in hs[i + 1..].iter() {
                    if n == m {
                        continue;
                    }
                    ctx.evals += 1;
                    if nt(*n, *m) {
                        ctx.nontrivial(fp(&(e, s, n, s2, m)));
                    }
                    if a.compatible(b) {
                        let p = Pair::HH { e, s: *s, n: *n, s2: *s2, m: *m };
                        judge_pair(&p).map_err(|f| (serde_json::to_value(&p).unwrap(), f))?;
                    }
                }
            }
            for n in 1..=e {
                let a = Shows::history(1, n, e);
                for m in 1..=e {
                    if m == n {
                        continue;
                    }
                    ctx.evals += 1;
                    if nt(n, m) {
                        ctx.nontrivial(fp(&(e, n, m, "lookup")));
                    }
                    if a.compatible(&Shows::lookup(m)) {
                        let p = Pair::HL { e, n, m };
                        match judge_pair(&p) {
                            Ok(true) => {}
                            Ok(false) => ctx.count("known_finding_pairs_excluded", 1),
                            Err(f) => return Err((serde_json::to_value(&p).unwrap(), f)),
                        }
                    }
                }
            }
            if e == 13 {
                ctx.sample(&json!({"E": 13, "example": "history(5..9) x history(1..12), history(1..5) x lookup(7), ... (all pairs)"}));
            }
            Ok(())
        },
        |v: &Value, _ctx| {
            let p: Pair = serde_json::from_value(v.clone()).map_err(|e| Fail { sig: "replay-decode".into(), msg: e.to_string() })?;
            judge_pair(&p).map(|_| ())
        },
    );
    // ---- part 2: beyond the bound
    eng.prop_part(
        "large",
        "generated (E, s, n, s2, m) over the whole u64 range, clustered around 2^k, the skip-list entries 2,4,16,256,65536,2^32 and their neighbours; same oracle; non-trivial = both versions above 96 (beyond the exhaustive bound), distinct",
        eng.tier.pick(2_000_000, 30_000_000),
        || {
            (big_version(), big_version(), big_version(), any::<u16>(), any::<u16>(), any::<bool>()).prop_filter_map("n != m", |(x, y, z, c, d, hl)| {
                let mut v = [x, y, z];
                v.sort();
                let (lo, mid, e) = (v[0], v[1], v[2]);
                if lo == mid {
                    return None;
                }
                let (n, m) = if c % 2 == 0 { (lo, mid) } else { (mid, lo) };
                let s = if d % 3 == 0 { 1 } else { n - (d as u64 % n.min(3000)) };
                let s2 = if c % 3 == 0 { 1 } else { m - (c as u64 % m.min(3000)) };
                Some(if hl { Pair::HL { e, n, m } } else { Pair::HH { e, s: s.max(1), n, s2: s2.max(1), m } })
            })
        },
        |p: &Pair, ctx: &mut Ctx| {
            if !p.valid() {
                return Ok(());
            }
            let (n, m) = match *p {
                Pair::HH { n, m, .. } | Pair::HL { n, m, .. } => (n, m),
            };
            if n > 96 && m > 96 {
                ctx.nontrivial(fp_json(p));
                ctx.sample(p);
            }
            match judge_pair(p)? {
                true => ctx.class("conflict_guaranteed"),
                false => ctx.class("known_finding_shape_excluded"),
            }
            Ok(())
        },
    );
    // ---- part 3: real trees
    let tree_cases = eng.tier.pick(3000, 40_000);
    eng.prop_part(
        "real_trees",
        "sampled pairs with E <= 12 (plus, implicitly, every pair the abstract analysis calls compatible) replayed on a real tree: a dishonest server inserts exactly the leaves both proofs need (version v created - and v-1 retired - at epoch v, or several versions created in one epoch: from epoch k on, all in epoch k or E, d per epoch), both proofs are assembled with the VRF key and handed to key_history_verify / lookup_verify under the same epoch and root; violated iff both verify with different latest versions; also cross-checks the abstract 'shows' sets against the real verifiers; a quarter of the cases present history A with a range of inner versions left out (such a proof must not verify next to another one); every case non-trivial, distinct by (pair, creation schedule)",
        tree_cases,
        || (pair_strategy(12), prop_oneof![Just(Cfg::Wa), Just(Cfg::Exp)], sched_strategy(), prop_oneof![3 => Just(None), 1 => (any::<u16>(), any::<u16>()).prop_map(Some)]),
        |(p, cfg, sched, gapsel): &(Pair, Cfg, Sched, Option<(u16, u16)>), ctx: &mut Ctx| {
            let sched = *sched;
            // a gap strictly inside history A's version range (needs at least 3 versions)
            let (sa, na) = match *p {
                Pair::HH { s, n, .. } => (s, n),
                Pair::HL { n, .. } => (1, n),
            };
            let gap = match gapsel {
                Some((x, y)) if na >= sa + 2 => {
                    let inner = (na - sa - 1) as usize;
                    let (g1, g2) = (sa + 1 + sel(*x, inner) as u64, sa + 1 + sel(*y, inner) as u64);
                    Some((g1.min(g2), g1.max(g2)))
                }
                _ => None,
            };
            if gap.is_some() {
                ctx.class("history_A_with_versions_left_out");
            }
            ctx.nontrivial(fp_json(&(p, sched, gap)));
            ctx.sample(&(p, sched, gap));
            ctx.class(match sched {
                Sched::Diagonal => "one_version_per_epoch",
                _ => "several_versions_created_in_one_epoch",
            });
            let mut st = TreeStats::default();
            let r = block_on(async {
                match cfg {
                    Cfg::Wa => tree_check::<Wa>(p, sched, gap, &mut st).await,
                    Cfg::Exp => tree_check::<Exp>(p, sched, gap, &mut st).await,
                }
            });
            ctx.count("both_proofs_verified", st.both_verified);
            ctx.count("only_history_A_verified", st.a_only);
            ctx.count("only_second_proof_verified", st.b_only);
            ctx.count("neither_verified", st.none);
            r
        },
    );
}
