//! C06 - a verifying lookup proof can only report the label's latest version.
use crate::dirx::*;
use crate::engine::*;
use crate::forge::*;
use crate::gen::*;
use crate::model::*;
use crate::{both_cfgs, ensure};
use akd::storage::memory::AsyncInMemoryDatabase;
use akd::{AkdLabel, AkdValue, AzksValue, LookupProof, MembershipProof, VerifyResult};
use proptest::prelude::*;
use serde::{Deserialize, Serialize};

#[derive(Serialize, Deserialize, Clone, Debug)]
pub struct Case {
    pub hist: Hist,
    pub picks: Vec<u16>,
}
#[derive(Default)]
pub struct Stats {
    candidates: u64,
    accepted: u64,
    stale_forged: u64,
    controls: u64,
}

struct Judge<'a> {
    pk: &'a [u8],
    root: D,
    epoch: u64,
}
impl<'a> Judge<'a> {
    /// the single soundness oracle
    fn check<TC: Tcfg>(&self, label: &[u8], truth: &Option<VerifyResult>, cand: LookupProof, what: &str, st: &mut Stats) -> R<bool> {
        st.candidates += 1;
        match verify_lookup::<TC>(self.pk, self.root, self.epoch, label, cand) {
            Ok(r) => {
                st.accepted += 1;
                ensure!(
                    Some(&r) == truth.as_ref(),
                    "lookup-accepts-wrong-state",
                    "epoch {}: lookup verification of label {} accepted {what} and reports {r:?}; the label's latest state is {truth:?}",
                    self.epoch,
                    hex::encode(label)
                );
                Ok(true)
            }
            Err(_) => Ok(false),
        }
    }
}

async fn run_cfg<TC: Tcfg>(case: &Case, st: &mut Stats) -> R {
    let c = TC::CFG;
    let db = AsyncInMemoryDatabase::new();
    let stm = manager(db.clone(), CacheKind::None);
    let mut sys = Sys::<TC, _>::new(stm.clone(), case.hist.key, ParKind::Disabled).await?;
    let (batches, _) = case.hist.resolve();
    let mut labels = case.hist.labels.clone();
    labels.sort();
    labels.dedup();
    let mut pi = 0usize;
    let mut pick = |n: usize| -> usize {
        let s = if case.picks.is_empty() { 0 } else { case.picks[pi % case.picks.len()] };
        pi += 1;
        sel(s, n.max(1))
    };
    // whole proofs of earlier epochs, to be replayed against later roots
    let mut old_proofs: Vec<(Vec<u8>, u64, LookupProof)> = vec![];
    for (i, b) in batches.iter().enumerate() {
        if !sys.publish(b, i).await? {
            continue;
        }
        let e = sys.m.epoch;
        let j = Judge { pk: &sys.pk, root: sys.m.roots[e as usize], epoch: e };
        let fg = Forger::new(&stm, &sys.key).await;
        // old proofs against the new root
        for (l, e_old, p) in old_proofs.iter() {
            j.check::<TC>(l, &expected_lookup(&sys.m, l, e), p.clone(), &format!("a whole proof generated at epoch {e_old}"), st)?;
        }
        let mut honest: Vec<(Vec<u8>, LookupProof)> = vec![];
        for l in &labels {
            let vers = sys.m.versions_at(l, e);
            let truth = expected_lookup(&sys.m, l, e);
            if vers.is_empty() {
                // never published: any claimed version must be rejected
                let fake = MVersion { version: 1, value: b"x".to_vec(), epoch: e };
                let nl = fg.node_label::<TC>(l, false, 1).await;
                for abs in fg.absences::<TC>(nl).await {
                    j.check::<TC>(l, &truth, fg.lookup_proof::<TC>(l, &fake, abs).await, "a proof for a never-published label", st)?;
                }
                continue;
            }
            // control: the server's honest proof verifies to the latest state
            let (hp, _) = sys.dir.lookup(AkdLabel(l.clone())).await.map_err(akd_err("lookup-err", "honest lookup"))?;
            st.controls += 1;
            ensure!(j.check::<TC>(l, &truth, hp.clone(), "the honest proof", st)?, "lookup-control-rejected", "epoch {e}: honest lookup proof of {} does not verify", hex::encode(l));
            honest.push((l.clone(), hp.clone()));
            if old_proofs.len() < 6 {
                old_proofs.push((l.clone(), e, hp.clone()));
            }
            let latest = vers.last().unwrap().clone();
            // every superseded version, freshness proof forged at every anchor depth
            for v in vers.iter().filter(|v| v.version < latest.version) {
                let snl = fg.node_label::<TC>(l, false, v.version).await;
                for (k, abs) in fg.absences::<TC>(snl).await.into_iter().enumerate() {
                    st.stale_forged += 1;
                    j.check::<TC>(l, &truth, fg.lookup_proof::<TC>(l, v, abs).await, &format!("superseded version {} with freshness candidate #{k}", v.version), st)?;
                }
            }
            // the forger's own proof for the latest version is a second control
            let snl = fg.node_label::<TC>(l, false, latest.version).await;
            let abs = fg.absences::<TC>(snl).await;
            let own = fg.lookup_proof::<TC>(l, &latest, abs[0].clone()).await;
            ensure!(j.check::<TC>(l, &truth, own.clone(), "the forger's proof for the latest version", st)?, "forger-control-rejected", "epoch {e}: proof assembled by the harness for the latest version does not verify (harness bug)");
            // shallow anchors for the true latest version must be rejected too (wrong anchor), but even if accepted they report the truth
            for a in abs.into_iter().skip(1) {
                j.check::<TC>(l, &truth, fg.lookup_proof::<TC>(l, &latest, a).await, "the latest version with a shallow freshness anchor", st)?;
            }
            // altered value / epoch / version
            let mut muts: Vec<(String, LookupProof)> = vec![];
            let mut p = own.clone();
            p.value = AkdValue([latest.value.clone(), b"!".to_vec()].concat());
            muts.push(("value altered".into(), p.clone()));
            p.commitment_nonce = fg.nonce::<TC>(&own.existence_proof.label, latest.version, &p.value.0);
            muts.push(("value altered with recomputed nonce".into(), p));
            for de in [latest.epoch.wrapping_sub(1), latest.epoch + 1, e + 1] {
                let mut p = own.clone();
                p.epoch = de;
                muts.push((format!("epoch altered to {de}"), p));
            }
            let mut p = own.clone();
            p.existence_proof.hash_val = AzksValue(leaf_with_epoch(c, &commitment(c, &h(c, &[&sys.key]), &own.existence_proof.label.label_val, latest.version, &latest.value), latest.epoch + 1));
            p.epoch = latest.epoch + 1;
            muts.push(("epoch and leaf hash re-dated".into(), p));
            for dv in [latest.version + 1, e + 1, e + 7, u64::MAX, 0] {
                if dv == 0 {
                    continue;
                }
                let fake = MVersion { version: dv, value: latest.value.clone(), epoch: latest.epoch };
                let snl = fg.node_label::<TC>(l, false, dv).await;
                let a = fg.absences::<TC>(snl).await;
                muts.push((format!("version {dv} (never issued / beyond the epoch)"), fg.lookup_proof::<TC>(l, &fake, a[0].clone()).await));
                let mut p = own.clone();
                p.version = dv;
                muts.push((format!("version field altered to {dv}"), p));
            }
            // marker forged from the root (empty sibling list) for a superseded version
            if let Some(v) = vers.iter().find(|v| v.version < latest.version) {
                let snl = fg.node_label::<TC>(l, false, v.version).await;
                let a = fg.absences::<TC>(snl).await;
                let mut p = fg.lookup_proof::<TC>(l, v, a[a.len() - 1].clone()).await;
                let root = fg.tree().root().await;
                p.marker_proof = MembershipProof { label: p.marker_proof.label, hash_val: root.hash, sibling_proofs: vec![] };
                muts.push(("marker proof forged from the root value with no siblings".into(), p.clone()));
                p.existence_proof = MembershipProof { label: p.existence_proof.label, hash_val: root.hash, sibling_proofs: vec![] };
                muts.push(("existence and marker proofs forged from the root value".into(), p));
            }
            // material of the previous epoch's tree
            if e >= 2 {
                let mut old = Forger::new(&stm, &sys.key).await;
                old.azks.latest_epoch = e - 1;
                if let Some(prev) = sys.m.latest_at(l, e - 1) {
                    let snl = old.node_label::<TC>(l, false, prev.version).await;
                    if let Some(a) = old.absences::<TC>(snl).await.into_iter().next() {
                        let op = old.lookup_proof::<TC>(l, &prev, a).await;
                        muts.push(("proof assembled from the previous epoch's tree".into(), op.clone()));
                        let mut p = own.clone();
                        p.freshness_proof = op.freshness_proof.clone();
                        muts.push(("freshness proof taken from the previous epoch's tree".into(), p));
                        let mut p = own.clone();
                        p.existence_proof = op.existence_proof.clone();
                        muts.push(("existence proof taken from the previous epoch's tree".into(), p));
                    }
                }
            }
            for (what, p) in muts {
                j.check::<TC>(l, &truth, p, &what, st)?;
            }
        }
        // another label's leaves / field-wise swaps between two honest proofs
        if honest.len() >= 2 {
            let a = pick(honest.len());
            let mut b = pick(honest.len());
            if a == b {
                b = (a + 1) % honest.len();
            }
            let (la, pa) = honest[a].clone();
            let (_, pb) = honest[b].clone();
            let truth = expected_lookup(&sys.m, &la, e);
            j.check::<TC>(&la, &truth, pb.clone(), "another label's whole proof", st)?;
            for f in 0..10 {
                let mut p = pa.clone();
                match f {
                    0 => p.epoch = pb.epoch,
                    1 => p.value = pb.value.clone(),
                    2 => p.version = pb.version,
                    3 => p.existence_vrf_proof = pb.existence_vrf_proof.clone(),
                    4 => p.existence_proof = pb.existence_proof.clone(),
                    5 => p.marker_vrf_proof = pb.marker_vrf_proof.clone(),
                    6 => p.marker_proof = pb.marker_proof.clone(),
                    7 => p.freshness_vrf_proof = pb.freshness_vrf_proof.clone(),
                    8 => p.freshness_proof = pb.freshness_proof.clone(),
                    _ => p.commitment_nonce = pb.commitment_nonce.clone(),
                }
                j.check::<TC>(&la, &truth, p, &format!("field #{f} swapped in from another label's proof"), st)?;
            }
            let mut p = pa.clone();
            p.existence_vrf_proof = pb.existence_vrf_proof.clone();
            p.existence_proof = pb.existence_proof.clone();
            p.value = pb.value.clone();
            p.epoch = pb.epoch;
            p.version = pb.version;
            p.commitment_nonce = pb.commitment_nonce.clone();
            j.check::<TC>(&la, &truth, p, "existence part (leaf, vrf proof, value, nonce) of another label", st)?;
        }
    }
    Ok(())
}

pub fn check(case: &Case, ctx: &mut Ctx) -> R {
    let mut st = Stats::default();
    let r = (|| {
        both_cfgs!(run_cfg(case, &mut st));
        Ok(())
    })();
    ctx.count("candidate_proofs", st.candidates);
    ctx.count("accepted(all truthful)", st.accepted);
    ctx.count("stale_version_candidates_with_forged_freshness", st.stale_forged);
    ctx.count("honest_controls", st.controls);
    if st.stale_forged > 0 {
        ctx.nontrivial(fp(&case.hist));
        ctx.sample(case);
    }
    r
}

pub fn strategy(thorough: bool) -> impl Strategy<Value = Case> {
    let max_e = if thorough { 14 } else { 7 };
    (prop_oneof![2 => hist_strategy(2, max_e, 5, 6), 2 => deep_hist_strategy(max_e + 3)], proptest::collection::vec(any::<u16>(), 2..8)).prop_map(|(hist, picks)| Case { hist, picks })
}

pub fn run(eng: &mut Engine) {
    let thorough = eng.tier == Tier::Thorough;
    eng.assume("adversary = a server holding the VRF secret key and the honestly maintained tree, recombining real material (no VRF forgery, no hash collisions)");
    eng.prop_part(
        "forged_lookups",
        "honest generated histories; after every effective publish, for every pool label: the honest proof (control); a proof for EVERY superseded version with the freshness proof taken from the server's generator and anchored at every node of the path; never-published labels; shallow anchors for the latest version; altered value (with/without recomputed nonce), epoch, re-dated leaf hash, versions beyond the epoch / never issued; marker and existence proofs forged from the root value; material and whole proofs of earlier epochs; another label's proof and all 10 single-field swaps; oracle: accepted => reports the model's latest (value, version, epoch); non-trivial = a stale-version candidate with a forged freshness proof was evaluated; distinct by history",
        eng.tier.pick(600, 4000),
        move || strategy(thorough),
        check,
    );
}
