//! C19 - proofs survive protobuf encoding unchanged; malformed input is rejected cleanly.
use crate::dirx::*;
use crate::engine::*;
use crate::gen::*;
use crate::model::*;
use crate::{both_cfgs, ensure};
use akd::local_auditing::{AuditBlob, AuditBlobName};
use akd::proto::specs::types as pb;
use akd::storage::memory::AsyncInMemoryDatabase;
use akd::{AkdLabel, AppendOnlyProof, HistoryProof, LookupProof, MembershipProof, NonMembershipProof, SingleAppendOnlyProof};
use proptest::prelude::*;
use protobuf::Message;
use serde::{Deserialize, Serialize};
use std::convert::{TryFrom, TryInto};

// ------------------------------------------------------------------ generic protobuf wire editing
#[derive(Clone, Debug, PartialEq)]
pub enum WVal {
    Varint(u64),
    Bytes(Vec<u8>),
    Msg(Vec<WField>),
    Fixed64([u8; 8]),
    Fixed32([u8; 4]),
}
#[derive(Clone, Debug, PartialEq)]
pub struct WField {
    pub num: u32,
    pub val: WVal,
}
#[derive(Clone, Copy, PartialEq, Debug)]
pub enum MT {
    NodeLabel,
    AzksElement,
    SiblingProof,
    MembershipProof,
    NonMembershipProof,
    LookupProof,
    UpdateProof,
    HistoryProof,
    SingleAppendOnlyProof,
    AppendOnlyProof,
}
/// sub-message type of a length-delimited field, if it is a message
fn sub(mt: MT, num: u32) -> Option<MT> {
    use MT::*;
    match (mt, num) {
        (AzksElement, 1) | (SiblingProof, 1) | (MembershipProof, 1) | (NonMembershipProof, 1) | (NonMembershipProof, 2) => Some(NodeLabel),
        (SiblingProof, 2) | (NonMembershipProof, 3) | (SingleAppendOnlyProof, 1) | (SingleAppendOnlyProof, 2) => Some(AzksElement),
        (MembershipProof, 3) => Some(SiblingProof),
        (NonMembershipProof, 4) | (LookupProof, 5) | (LookupProof, 7) | (UpdateProof, 5) | (UpdateProof, 7) | (HistoryProof, 3) => Some(MembershipProof),
        (LookupProof, 9) | (HistoryProof, 5) => Some(NonMembershipProof),
        (HistoryProof, 1) => Some(UpdateProof),
        (AppendOnlyProof, 1) => Some(SingleAppendOnlyProof),
        _ => None,
    }
}
fn rd_varint(b: &[u8], i: &mut usize) -> Option<u64> {
    let mut v = 0u64;
    for k in 0..10 {
        let x = *b.get(*i)?;
        *i += 1;
        v |= ((x & 0x7f) as u64) << (7 * k);
        if x & 0x80 == 0 {
            return Some(v);
        }
    }
    None
}
fn wr_varint(mut v: u64, out: &mut Vec<u8>) {
    loop {
        let x = (v & 0x7f) as u8;
        v >>= 7;
        if v == 0 {
            out.push(x);
            break;
        }
        out.push(x | 0x80);
    }
}
pub fn wparse(mt: MT, b: &[u8]) -> Option<Vec<WField>> {
    let mut i = 0;
    let mut out = vec![];
    while i < b.len() {
        let key = rd_varint(b, &mut i)?;
        let (num, wt) = ((key >> 3) as u32, key & 7);
        let val = match wt {
            0 => WVal::Varint(rd_varint(b, &mut i)?),
            1 => {
                let s = b.get(i..i + 8)?;
                i += 8;
                WVal::Fixed64(s.try_into().ok()?)
            }
            5 => {
                let s = b.get(i..i + 4)?;
                i += 4;
                WVal::Fixed32(s.try_into().ok()?)
            }
            2 => {
                let n = rd_varint(b, &mut i)? as usize;
                let s = b.get(i..i.checked_add(n)?)?;
                i += n;
                match sub(mt, num) {
                    Some(st) => WVal::Msg(wparse(st, s)?),
                    None => WVal::Bytes(s.to_vec()),
                }
            }
            _ => return None,
        };
        out.push(WField { num, val });
    }
    Some(out)
}
pub fn wenc(fields: &[WField]) -> Vec<u8> {
    let mut out = vec![];
    for f in fields {
        let wt = match f.val {
            WVal::Varint(_) => 0,
            WVal::Fixed64(_) => 1,
            WVal::Fixed32(_) => 5,
            _ => 2,
        };
        wr_varint(((f.num as u64) << 3) | wt, &mut out);
        match &f.val {
            WVal::Varint(v) => wr_varint(*v, &mut out),
            WVal::Fixed64(x) => out.extend_from_slice(x),
            WVal::Fixed32(x) => out.extend_from_slice(x),
            WVal::Bytes(x) => {
                wr_varint(x.len() as u64, &mut out);
                out.extend_from_slice(x);
            }
            WVal::Msg(m) => {
                let e = wenc(m);
                wr_varint(e.len() as u64, &mut out);
                out.extend_from_slice(&e);
            }
        }
    }
    out
}
/// number of fields in the tree (pre-order positions)
fn wcount(f: &[WField]) -> usize {
    f.iter().map(|x| 1 + if let WVal::Msg(m) = &x.val { wcount(m) } else { 0 }).sum()
}
/// apply `edit` to the field at pre-order position `pos`; the closure may return a replacement list (0, 1 or 2 fields)
fn wedit(f: &mut Vec<WField>, pos: &mut usize, edit: &mut dyn FnMut(&WField) -> Vec<WField>) -> bool {
    let mut i = 0;
    while i < f.len() {
        if *pos == 0 {
            let rep = edit(&f[i]);
            f.splice(i..=i, rep);
            return true;
        }
        *pos -= 1;
        if let WVal::Msg(m) = &mut f[i].val {
            if wedit(m, pos, edit) {
                return true;
            }
        }
        i += 1;
    }
    false
}

#[derive(Serialize, Deserialize, Clone, Debug)]
pub enum Mutn {
    /// delete the field at the selected position (at any depth)
    DeleteField(u16),
    DuplicateField(u16),
    /// bytes payload resized to the given length (digest / label / vrf proof of the wrong size)
    ResizeBytes(u16, u8),
    /// varint replaced (e.g. label_len 257+, direction 2+, epoch/version changes)
    SetVarint(u16, u64),
    FlipPayloadBit(u16, u16),
    /// byte-level edits on the encoding
    Truncate(u16),
    FlipBit(u32),
    Splice(u16, u16, u16),
    Append(#[serde(with = "crate::gen::hexvec")] Vec<u8>),
    /// replace everything by arbitrary bytes
    Arbitrary(#[serde(with = "crate::gen::hexvec")] Vec<u8>),
}
pub fn apply_mutation(mt: MT, enc: &[u8], m: &Mutn) -> Vec<u8> {
    let tree = wparse(mt, enc);
    let with_tree = |f: &mut dyn FnMut(&WField) -> Vec<WField>, s: u16| -> Vec<u8> {
        match tree.clone() {
            Some(mut t) => {
                let n = wcount(&t);
                let mut pos = sel(s, n);
                wedit(&mut t, &mut pos, f);
                wenc(&t)
            }
            None => enc.to_vec(),
        }
    };
    match m {
        Mutn::DeleteField(s) => with_tree(&mut |_| vec![], *s),
        Mutn::DuplicateField(s) => with_tree(&mut |f| vec![f.clone(), f.clone()], *s),
        Mutn::ResizeBytes(s, n) => with_tree(
            &mut |f| match &f.val {
                WVal::Bytes(b) => {
                    let mut b = b.clone();
                    b.resize(*n as usize, 0xAB);
                    vec![WField { num: f.num, val: WVal::Bytes(b) }]
                }
                _ => vec![f.clone()],
            },
            *s,
        ),
        Mutn::SetVarint(s, v) => with_tree(
            &mut |f| match &f.val {
                WVal::Varint(_) => vec![WField { num: f.num, val: WVal::Varint(*v) }],
                _ => vec![f.clone()],
            },
            *s,
        ),
        Mutn::FlipPayloadBit(s, bitp) => with_tree(
            &mut |f| match &f.val {
                WVal::Bytes(b) if !b.is_empty() => {
                    let mut b = b.clone();
                    let k = *bitp as usize % (b.len() * 8);
                    b[k / 8] ^= 1 << (k % 8);
                    vec![WField { num: f.num, val: WVal::Bytes(b) }]
                }
                WVal::Varint(v) => vec![WField { num: f.num, val: WVal::Varint(v ^ (1 << (*bitp % 64))) }],
                _ => vec![f.clone()],
            },
            *s,
        ),
        Mutn::Truncate(s) => enc[..sel(*s, enc.len() + 1)].to_vec(),
        Mutn::FlipBit(s) => {
            let mut e = enc.to_vec();
            if !e.is_empty() {
                let k = *s as usize % (e.len() * 8);
                e[k / 8] ^= 1 << (k % 8);
            }
            e
        }
        Mutn::Splice(a, b, c) => {
            let (a, b) = (sel(*a, enc.len() + 1), sel(*b, enc.len() + 1));
            let (lo, hi) = (a.min(b), a.max(b));
            let at = sel(*c, enc.len() + 1);
            let mut e = enc.to_vec();
            let piece = enc[lo..hi].to_vec();
            e.splice(at..at, piece);
            e
        }
        Mutn::Append(x) => [enc, &x[..]].concat(),
        Mutn::Arbitrary(x) => x.clone(),
    }
}
pub fn mutation_strategy() -> impl Strategy<Value = Mutn> {
    prop_oneof![
        4 => any::<u16>().prop_map(Mutn::DeleteField),
        2 => any::<u16>().prop_map(Mutn::DuplicateField),
        3 => (any::<u16>(), prop_oneof![Just(0u8), Just(31), Just(32), Just(33), Just(79), Just(80), Just(81), any::<u8>()]).prop_map(|(s, n)| Mutn::ResizeBytes(s, n)),
        3 => (any::<u16>(), prop_oneof![Just(0u64), Just(1), Just(2), Just(255), Just(256), Just(257), Just(u32::MAX as u64), Just(u32::MAX as u64 + 1), Just(u64::MAX), any::<u64>()]).prop_map(|(s, v)| Mutn::SetVarint(s, v)),
        3 => (any::<u16>(), any::<u16>()).prop_map(|(s, b)| Mutn::FlipPayloadBit(s, b)),
        2 => any::<u16>().prop_map(Mutn::Truncate),
        3 => any::<u32>().prop_map(Mutn::FlipBit),
        1 => (any::<u16>(), any::<u16>(), any::<u16>()).prop_map(|(a, b, c)| Mutn::Splice(a, b, c)),
        1 => proptest::collection::vec(any::<u8>(), 1..8).prop_map(Mutn::Append),
        1 => proptest::collection::vec(any::<u8>(), 0..200).prop_map(Mutn::Arbitrary),
    ]
}

// ------------------------------------------------------------------ the check
#[derive(Serialize, Deserialize, Clone, Debug)]
pub struct Case {
    pub hist: Hist,
    pub muts: Vec<Mutn>,
    pub names: Vec<String>,
}
#[derive(Default)]
pub struct Stats {
    roundtrips: u64,
    mutated: u64,
    still_decode: u64,
    still_verify: u64,
}

macro_rules! roundtrip {
    ($val:expr, $pbty:ty, $ty:ty, $what:expr, $st:expr) => {{
        let orig: &$ty = $val;
        let msg: $pbty = orig.into();
        let bytes = msg.write_to_bytes().map_err(|e| Fail { sig: "encode-err".into(), msg: format!("{}: {e}", $what) })?;
        let msg2 = <$pbty>::parse_from_bytes(&bytes).map_err(|e| Fail { sig: "reparse-err".into(), msg: format!("{}: own encoding does not parse: {e}", $what) })?;
        let back: $ty = (&msg2).try_into().map_err(|e| Fail { sig: "roundtrip-decode-err".into(), msg: format!("{}: own encoding does not convert back: {e:?}", $what) })?;
        ensure!(&back == orig, "roundtrip-changed", "{}: value changed by protobuf round trip: {:?} -> {:?}", $what, orig, back);
        $st.roundtrips += 1;
        bytes
    }};
}

/// decode mutated bytes of message type `$pbty`; returns Some(value) if it still converts
macro_rules! decode_mut {
    ($bytes:expr, $pbty:ty, $ty:ty) => {{
        match <$pbty>::parse_from_bytes($bytes) {
            Ok(m) => {
                let r: Result<$ty, _> = (&m).try_into();
                match r {
                    Ok(v) => {
                        // decode . encode . decode is idempotent
                        let again: $pbty = (&v).into();
                        let b2 = again.write_to_bytes().ok();
                        let v2: Option<$ty> = b2.as_ref().and_then(|b| <$pbty>::parse_from_bytes(b).ok()).and_then(|m| (&m).try_into().ok());
                        if v2.as_ref() != Some(&v) {
                            return fail("decode-not-idempotent", format!("decoding a corrupted {} is not idempotent under re-encoding", stringify!($ty)));
                        }
                        Some(v)
                    }
                    Err(_) => None,
                }
            }
            Err(_) => None,
        }
    }};
}

async fn run_cfg<TC: Tcfg>(case: &Case, st: &mut Stats) -> R {
    let db = AsyncInMemoryDatabase::new();
    let mut sys = Sys::<TC, _>::new(manager(db, CacheKind::None), case.hist.key, ParKind::Disabled).await?;
    let (batches, _) = case.hist.resolve();
    for (i, b) in batches.iter().enumerate() {
        sys.publish(b, i).await?;
    }
    let e = sys.m.epoch;
    if e == 0 {
        return Ok(());
    }
    let root = sys.m.roots[e as usize];
    let mut labels: Vec<Vec<u8>> = sys.m.users.keys().cloned().collect();
    labels.sort();
    let mut mi = 0usize;
    for l in labels.iter().take(3) {
        // ---------------- lookup proof (the wasm client's path: parse_from_bytes -> try_into -> lookup_verify)
        let (lp, _) = sys.dir.lookup(AkdLabel(l.clone())).await.map_err(akd_err("lookup-err", "lookup"))?;
        let orig_res = verify_lookup::<TC>(&sys.pk, root, e, l, lp.clone());
        ensure!(orig_res.is_ok(), "lookup-verify", "honest lookup proof does not verify");
        let enc = roundtrip!(&lp, pb::LookupProof, LookupProof, "LookupProof", st);
        let dec: LookupProof = (&pb::LookupProof::parse_from_bytes(&enc).unwrap()).try_into().unwrap();
        ensure!(verify_lookup::<TC>(&sys.pk, root, e, l, dec) == orig_res, "roundtrip-verify-differs", "decoded lookup proof verifies differently");
        // components
        roundtrip!(&lp.existence_proof, pb::MembershipProof, MembershipProof, "MembershipProof", st);
        roundtrip!(&lp.freshness_proof, pb::NonMembershipProof, NonMembershipProof, "NonMembershipProof", st);
        roundtrip!(&lp.existence_proof.label, pb::NodeLabel, akd::NodeLabel, "NodeLabel", st);
        roundtrip!(&TC::empty_label(), pb::NodeLabel, akd::NodeLabel, "NodeLabel(empty label)", st);
        roundtrip!(&lp.freshness_proof.longest_prefix, pb::NodeLabel, akd::NodeLabel, "NodeLabel(interior)", st);
        roundtrip!(&lp.freshness_proof.longest_prefix_children[0], pb::AzksElement, akd::AzksElement, "AzksElement", st);
        for sp in lp.existence_proof.sibling_proofs.iter().take(2) {
            roundtrip!(sp, pb::SiblingProof, akd::SiblingProof, "SiblingProof", st);
        }
        for _ in 0..case.muts.len().min(12) {
            let m = &case.muts[mi % case.muts.len()];
            mi += 1;
            let bytes = apply_mutation(MT::LookupProof, &enc, m);
            if bytes == enc {
                continue;
            }
            st.mutated += 1;
            if let Some(p) = decode_mut!(&bytes, pb::LookupProof, LookupProof) {
                st.still_decode += 1;
                let r = verify_lookup::<TC>(&sys.pk, root, e, l, p);
                if let Ok(v) = &r {
                    st.still_verify += 1;
                    ensure!(Ok(v.clone()) == orig_res, "corrupted-lookup-verifies-differently", "a corrupted lookup proof encoding ({m:?}) decodes and verifies to {v:?}, the original verifies to {orig_res:?}");
                }
            }
        }
        // ---------------- history proof
        let (hp, _) = sys.dir.key_history(&AkdLabel(l.clone()), HP::Complete.to()).await.map_err(akd_err("history-err", "key_history"))?;
        let orig_h = verify_history::<TC>(&sys.pk, root, e, l, hp.clone(), HP::Complete.to(), false);
        ensure!(orig_h.is_ok(), "history-verify", "honest history proof does not verify");
        let enc = roundtrip!(&hp, pb::HistoryProof, HistoryProof, "HistoryProof", st);
        let dec: HistoryProof = (&pb::HistoryProof::parse_from_bytes(&enc).unwrap()).try_into().unwrap();
        ensure!(verify_history::<TC>(&sys.pk, root, e, l, dec, HP::Complete.to(), false) == orig_h, "roundtrip-verify-differs", "decoded history proof verifies differently");
        for up in hp.update_proofs.iter().take(2) {
            roundtrip!(up, pb::UpdateProof, akd::UpdateProof, "UpdateProof", st);
        }
        for _ in 0..case.muts.len().min(12) {
            let m = &case.muts[mi % case.muts.len()];
            mi += 1;
            let bytes = apply_mutation(MT::HistoryProof, &enc, m);
            if bytes == enc {
                continue;
            }
            st.mutated += 1;
            if let Some(p) = decode_mut!(&bytes, pb::HistoryProof, HistoryProof) {
                st.still_decode += 1;
                let r = verify_history::<TC>(&sys.pk, root, e, l, p, HP::Complete.to(), false);
                if let Ok(v) = &r {
                    st.still_verify += 1;
                    ensure!(Ok(v.clone()) == orig_h, "corrupted-history-verifies-differently", "a corrupted history proof encoding ({m:?}) decodes and verifies to {v:?}, the original to {orig_h:?}");
                }
            }
        }
    }
    // ---------------- append-only proofs + audit blobs
    let s = e.saturating_sub(2);
    let ap = sys.dir.audit(s, e).await.map_err(akd_err("audit-err", "audit"))?;
    let hashes: Vec<D> = sys.m.roots[s as usize..=e as usize].to_vec();
    ensure!(akd::auditor::audit_verify::<TC>(hashes.clone(), ap.clone()).await.is_ok(), "audit-verify", "honest audit proof does not verify");
    let enc = roundtrip!(&ap, pb::AppendOnlyProof, AppendOnlyProof, "AppendOnlyProof", st);
    let dec: AppendOnlyProof = (&pb::AppendOnlyProof::parse_from_bytes(&enc).unwrap()).try_into().unwrap();
    ensure!(akd::auditor::audit_verify::<TC>(hashes.clone(), dec).await.is_ok(), "roundtrip-verify-differs", "decoded audit proof does not verify");
    roundtrip!(&ap.proofs[0], pb::SingleAppendOnlyProof, SingleAppendOnlyProof, "SingleAppendOnlyProof", st);
    for _ in 0..case.muts.len().min(10) {
        let m = &case.muts[mi % case.muts.len()];
        mi += 1;
        let bytes = apply_mutation(MT::AppendOnlyProof, &enc, m);
        if bytes == enc {
            continue;
        }
        st.mutated += 1;
        if let Some(p) = decode_mut!(&bytes, pb::AppendOnlyProof, AppendOnlyProof) {
            st.still_decode += 1;
            // result type is (): "same result" means it may only verify if it proves the same transition
            if p != ap && akd::auditor::audit_verify::<TC>(hashes.clone(), p.clone()).await.is_ok() {
                st.still_verify += 1;
                // a different proof for the same hashes is acceptable only if it is itself a valid append-only proof; the
                // soundness of accepted proofs is C09's subject. Here: it must at least keep the epochs.
                ensure!(p.epochs == ap.epochs, "corrupted-audit-verifies-differently", "a corrupted audit proof encoding ({m:?}) verifies with different epochs {:?}", p.epochs);
            }
        }
    }
    // audit blobs
    let blobs = akd::local_auditing::generate_audit_blobs(hashes.clone(), ap.clone()).map_err(|e| Fail { sig: "blob-err".into(), msg: format!("{e:?}") })?;
    ensure!(blobs.len() == ap.proofs.len(), "blob-count", "generate_audit_blobs returned {} blobs for {} proofs", blobs.len(), ap.proofs.len());
    for (i, b) in blobs.iter().enumerate() {
        let (ep, ph, ch, pr) = b.decode().map_err(|e| Fail { sig: "blob-decode-err".into(), msg: format!("{e:?}") })?;
        ensure!(ep == ap.epochs[i] && ph == hashes[i] && ch == hashes[i + 1] && pr == ap.proofs[i], "blob-roundtrip", "audit blob {i} does not decode to its inputs");
        let name = b.name.to_string();
        let back = AuditBlobName::try_from(name.as_str()).map_err(|e| Fail { sig: "blobname-parse-err".into(), msg: format!("{name}: {e:?}") })?;
        ensure!(back == b.name, "blobname-roundtrip", "blob name {name} parses to a different name");
        st.roundtrips += 2;
        for _ in 0..4 {
            let m = &case.muts[mi % case.muts.len()];
            mi += 1;
            let data = apply_mutation(MT::SingleAppendOnlyProof, &b.data, m);
            st.mutated += 1;
            let _ = AuditBlob { name: b.name, data }.decode(); // must not panic
        }
    }
    Ok(())
}

pub fn check(case: &Case, ctx: &mut Ctx) -> R {
    // blob names: arbitrary strings must be handled without panic; valid ones round-trip
    for n in &case.names {
        if let Ok(parsed) = AuditBlobName::try_from(n.as_str()) {
            let again = AuditBlobName::try_from(parsed.to_string().as_str());
            ensure!(again.as_ref().ok() == Some(&parsed), "blobname-roundtrip", "blob name {n:?} parses to {parsed:?} which does not round-trip");
        }
    }
    // digest parsing as done first by the wasm client (root hash handed over as a byte slice)
    for n in [0usize, 1, 31, 32, 33, 64] {
        let b: Vec<u8> = (0..n).map(|i| (i * 7 + case.muts.len()) as u8).collect();
        match akd::hash::try_parse_digest(&b) {
            Ok(d) => ensure!(n == 32 && d[..] == b[..], "digest-parse", "try_parse_digest accepted {n} bytes or changed them"),
            Err(_) => ensure!(n != 32, "digest-parse", "try_parse_digest rejected a 32-byte digest"),
        }
    }
    // arbitrary bytes into every decoder
    for m in &case.muts {
        if let Mutn::Arbitrary(x) = m {
            let _ = pb::LookupProof::parse_from_bytes(x).ok().map(|m| LookupProof::try_from(&m));
            let _ = pb::HistoryProof::parse_from_bytes(x).ok().map(|m| HistoryProof::try_from(&m));
            let _ = pb::AppendOnlyProof::parse_from_bytes(x).ok().map(|m| AppendOnlyProof::try_from(&m));
            let _ = pb::NonMembershipProof::parse_from_bytes(x).ok().map(|m| NonMembershipProof::try_from(&m));
            let _ = pb::NodeLabel::parse_from_bytes(x).ok().map(|m| akd::NodeLabel::try_from(&m));
        }
    }
    let mut st = Stats::default();
    let r = (|| {
        both_cfgs!(run_cfg(case, &mut st));
        Ok(())
    })();
    ctx.count("roundtrips", st.roundtrips);
    ctx.count("mutated_encodings", st.mutated);
    ctx.count("mutated_still_decoding", st.still_decode);
    ctx.count("mutated_still_verifying", st.still_verify);
    if st.still_decode > 0 {
        ctx.nontrivial(fp_json(case));
        ctx.sample(&serde_json::json!({"muts": case.muts, "names": case.names, "epochs": case.hist.batches.len()}));
    }
    r
}

pub fn name_strategy() -> impl Strategy<Value = String> {
    prop_oneof![
        2 => (any::<u64>(), proptest::collection::vec(any::<u8>(), 32..=32), proptest::collection::vec(any::<u8>(), 32..=32)).prop_map(|(e, a, b)| format!("{e}/{}/{}", hex::encode(a), hex::encode(b))),
        1 => (any::<u64>(), proptest::collection::vec(any::<u8>(), 0..40), proptest::collection::vec(any::<u8>(), 0..40)).prop_map(|(e, a, b)| format!("{e}/{}/{}", hex::encode(a), hex::encode(b))),
        2 => "[0-9a-fA-F/ +-]{0,80}",
        1 => "\\PC{0,30}",
        1 => Just("18446744073709551616/00/00".to_string()),
        1 => Just("//".to_string()),
    ]
}

/// byte-level cases (seed corpus of the libFuzzer target, and replay of inputs it found)
pub fn bytes_part(eng: &mut Engine) {
    let items = crate::fuzz::c19_seed_corpus();
    eng.enum_part(
        "fuzz_bytes",
        "the byte-level entry of the libFuzzer target fuzz_c19 (raw bytes into every protobuf decoder; golden-context verification equivalence) run on its seed corpus; replays inputs found by libFuzzer; every seed is non-trivial",
        false,
        items,
        |bytes, ctx| {
            ctx.evals += 1;
            ctx.nontrivial(fp(bytes));
            ctx.sample(&serde_json::json!({"bytes": hex::encode(&bytes[..bytes.len().min(48)]), "len": bytes.len()}));
            crate::fuzz::c19_bytes_judge(bytes).map_err(|f| (serde_json::json!({"bytes": hex::encode(bytes)}), f))
        },
        |v, _| crate::fuzz::c19_bytes_judge(&hex::decode(v["bytes"].as_str().unwrap_or("")).unwrap_or_default()),
    );
}

pub fn strategy_n(max_e: usize) -> impl Strategy<Value = Case> {
    (hist_strategy(1, max_e, 5, 6), proptest::collection::vec(mutation_strategy(), 8..40), proptest::collection::vec(name_strategy(), 0..4)).prop_map(|(hist, muts, names)| Case { hist, muts, names })
}
pub fn strategy() -> impl Strategy<Value = Case> {
    strategy_n(4)
}

pub fn run(eng: &mut Engine) {
    let thorough = eng.tier == Tier::Thorough;
    eng.assume("history proofs are verified in Default mode (under AllowMissingValues an explicit empty value is a legitimate tombstone and changes the result by design)");
    eng.assume("an accepted but different append-only proof is C09's subject; here it must at least keep the epoch list");
    eng.prop_part(
        "codec",
        "real lookup / history / append-only proofs and all component types harvested from generated histories: value -> message -> bytes -> message -> value must be the identity with equal verification results (lookup path = the wasm client's parse_from_bytes -> try_into -> lookup_verify); encodings mutated at message level through a generic wire-format editor (delete / duplicate any field at any depth, resize digests/labels/vrf proofs, set varints to 257, 2^32.., flip payload bits) and at byte level (truncate, flip, splice, append, arbitrary): never panic, decode idempotent, and if the result still verifies it verifies to the original's result; AuditBlob / AuditBlobName round-trips and arbitrary names; non-trivial = a mutated encoding still decoded; distinct by case",
        eng.tier.pick(8000, 100_000),
        move || strategy_n(if thorough { 8 } else { 5 }),
        check,
    );
    bytes_part(eng);
    eng.fuzz_part_from_env("fuzz_c19");
}
