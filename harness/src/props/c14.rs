//! C14 - results do not depend on parallelism, caching, preloading, batching or restarts.
use crate::dirx::*;
use crate::engine::*;
use crate::gen::*;
use crate::model::*;
use crate::props::c05::{build_tree, LeafSet};
use crate::vdb::snapshot;
use crate::ensure;
use akd::append_only_zks::InsertMode;
use akd::storage::memory::AsyncInMemoryDatabase;
use akd::storage::types::DbRecord;
use akd::storage::StorageManager;
use akd::{AkdLabel, Azks, AzksElement, AzksValue, NodeLabel};
use proptest::prelude::*;
use serde::{Deserialize, Serialize};
use std::io::Write;

#[derive(Serialize, Deserialize, Clone, Debug, PartialEq, Eq)]
pub enum Q {
    Lookup(u16),
    Batch(Vec<u16>),
    History(u16, HP),
    Audit(u16, u16),
    EpochHash,
}
#[derive(Serialize, Deserialize, Clone, Debug)]
pub struct RunCfg {
    pub par: ParKind,
    pub cache: CacheKind,
    /// bit i set: the directory object is dropped and re-created (with a new manager / cache) before step i
    pub restarts: u32,
    /// queries are served by a ReadOnlyDirectory over the same storage
    pub read_only: bool,
    /// bit i set: real 3 ms pause before step i (lets short-lived cache entries expire)
    pub pauses: u32,
    /// publish calls issued from a spawned task
    #[serde(default)]
    pub spawned: bool,
    /// p > 0: storage operations yield to the runtime at every p-th gate (more task interleavings)
    #[serde(default)]
    pub yields: u8,
}
#[derive(Serialize, Deserialize, Clone, Debug)]
pub struct Case {
    pub cfg: Cfg,
    pub hist: Hist,
    /// queries issued after every publish (cyclically two per step) and all at the end
    pub script: Vec<Q>,
    pub runs: Vec<RunCfg>,
}

const FEATURE_SET: &str = if cfg!(feature = "perf") { "A(default: parallel_vrf, preload_history, greedy_lookup_preload)" } else { "B(none of parallel_vrf / preload_history / greedy_lookup_preload)" };

fn short(h: &[u8]) -> String {
    hex::encode(&h[..8])
}

/// what the model says the transcript must be
fn model_transcript<TC: Tcfg>(case: &Case) -> Vec<String> {
    let key = key_bytes(case.hist.key);
    let mut m = Model::new(TC::CFG, &key);
    let (batches, _) = case.hist.resolve();
    let mut labels = case.hist.labels.clone();
    labels.sort();
    labels.dedup();
    let mut out = vec![];
    let mut qi = 0usize;
    let answer = |m: &Model, q: &Q| -> String {
        let e = m.epoch;
        let lab = |s: &u16| labels[sel(*s, labels.len())].clone();
        match q {
            Q::Lookup(s) => format!("lookup {} -> {:?}", hex::encode(lab(s)), expected_lookup(m, &lab(s), e).map(|r| (r.version, r.epoch, hex::encode(r.value.0)))),
            Q::Batch(ss) => {
                let mut ls: Vec<Vec<u8>> = ss.iter().map(lab).collect();
                ls.sort();
                ls.dedup();
                let rs: Option<Vec<_>> = ls.iter().map(|l| expected_lookup(m, l, e).map(|r| (r.version, r.epoch, hex::encode(r.value.0)))).collect();
                format!("batch {:?} -> {:?}", ls.iter().map(hex::encode).collect::<Vec<_>>(), rs)
            }
            Q::History(s, p) => {
                let v = expected_history(m, &lab(s), e, *p);
                format!("history {} {p:?} -> {:?}", hex::encode(lab(s)), if v.is_empty() { None } else { Some(v.iter().map(|r| (r.version, r.epoch, hex::encode(&r.value.0))).collect::<Vec<_>>()) })
            }
            Q::Audit(a, b) => {
                let (a, b) = (sel(*a, e as usize + 2) as u64, sel(*b, e as usize + 2) as u64);
                format!("audit {a}..{b} -> {}", if a < b && b <= e { "verifies" } else { "refused" })
            }
            Q::EpochHash => format!("epoch_hash -> ({}, {})", e, short(&m.roots[e as usize])),
        }
    };
    for (i, b) in batches.iter().enumerate() {
        match m.publish(b) {
            Ok((e, r)) => out.push(format!("publish#{i} -> Ok({e}, {})", short(&r))),
            Err(()) => out.push(format!("publish#{i} -> Err")),
        }
        for _ in 0..2 {
            if !case.script.is_empty() {
                out.push(answer(&m, &case.script[qi % case.script.len()]));
                qi += 1;
            }
        }
    }
    for q in &case.script {
        out.push(answer(&m, q));
    }
    out
}

/// the same transcript produced by the real system under one configuration
async fn real_transcript<TC: Tcfg>(case: &Case, rc: &RunCfg) -> R<Vec<String>> {
    let key = key_bytes(case.hist.key);
    let pk = public_key(&key);
    let db = crate::vdb::VDb::new();
    db.ctl.yield_every.store(rc.yields as u64, std::sync::atomic::Ordering::SeqCst);
    let (batches, _) = case.hist.resolve();
    let mut labels = case.hist.labels.clone();
    labels.sort();
    labels.dedup();
    let mut dir = new_dir::<TC, _>(manager(db.clone(), rc.cache), &key, rc.par).await?;
    let mut out = vec![];
    let mut qi = 0usize;
    let mut step = 0u32;
    // epoch hashes published so far, as reported by publish (verification of later answers uses the answer's own epoch hash)
    let mut roots: Vec<D> = vec![dir.get_epoch_hash().await.map_err(akd_err("epoch-hash-err", "initial"))?.1];
    macro_rules! before_step {
        () => {{
            if (rc.pauses >> (step % 32)) & 1 == 1 {
                tokio::time::sleep(std::time::Duration::from_millis(3)).await;
            }
            if (rc.restarts >> (step % 32)) & 1 == 1 {
                drop(dir);
                dir = new_dir::<TC, _>(manager(db.clone(), rc.cache), &key, rc.par).await?;
            }
            step += 1;
        }};
    }
    async fn answer<TC: Tcfg>(rd: &dyn Reader, pk: &[u8], labels: &[Vec<u8>], roots: &[D], q: &Q) -> String {
        let lab = |s: &u16| labels[sel(*s, labels.len())].clone();
        let cur = roots.len() as u64 - 1;
        match q {
            Q::Lookup(s) => {
                let l = lab(s);
                let r = match rd.r_lookup(AkdLabel(l.clone())).await {
                    Ok((p, eh)) => match verify_lookup::<TC>(pk, eh.1, eh.0, &l, p) {
                        Ok(v) if eh.0 == cur && eh.1 == roots[cur as usize] => Some((v.version, v.epoch, hex::encode(v.value.0))),
                        other => return format!("lookup {} -> UNEXPECTED {other:?} at ({}, {})", hex::encode(&l), eh.0, short(&eh.1)),
                    },
                    Err(_) => None,
                };
                format!("lookup {} -> {:?}", hex::encode(l), r)
            }
            Q::Batch(ss) => {
                let mut ls: Vec<Vec<u8>> = ss.iter().map(lab).collect();
                ls.sort();
                ls.dedup();
                let al: Vec<AkdLabel> = ls.iter().map(|l| AkdLabel(l.clone())).collect();
                let rs = match rd.r_batch_lookup(&al).await {
                    Ok((ps, eh)) => {
                        let mut v = vec![];
                        for (l, p) in ls.iter().zip(ps.into_iter()) {
                            match verify_lookup::<TC>(pk, eh.1, eh.0, l, p) {
                                Ok(r) if eh.0 == cur && eh.1 == roots[cur as usize] => v.push((r.version, r.epoch, hex::encode(r.value.0))),
                                other => return format!("batch -> UNEXPECTED {other:?}"),
                            }
                        }
                        Some(v)
                    }
                    Err(_) => None,
                };
                format!("batch {:?} -> {:?}", ls.iter().map(hex::encode).collect::<Vec<_>>(), rs)
            }
            Q::History(s, p) => {
                let l = lab(s);
                let r = match rd.r_history(&AkdLabel(l.clone()), p.to()).await {
                    Ok((hp, eh)) => match verify_history::<TC>(pk, eh.1, eh.0, &l, hp, p.to(), false) {
                        Ok(v) if eh.0 == cur && eh.1 == roots[cur as usize] => Some(v.iter().map(|r| (r.version, r.epoch, hex::encode(&r.value.0))).collect::<Vec<_>>()),
                        other => return format!("history {} {p:?} -> UNEXPECTED {other:?}", hex::encode(&l)),
                    },
                    Err(_) => None,
                };
                format!("history {} {p:?} -> {:?}", hex::encode(l), r)
            }
            Q::Audit(a, b) => {
                let (a, b) = (sel(*a, cur as usize + 2) as u64, sel(*b, cur as usize + 2) as u64);
                let r = match rd.r_audit(a, b).await {
                    Ok(ap) => {
                        if a < b && b <= cur && akd::auditor::audit_verify::<TC>(roots[a as usize..=b as usize].to_vec(), ap).await.is_ok() {
                            "verifies"
                        } else {
                            "DOES NOT VERIFY"
                        }
                    }
                    Err(_) => "refused",
                };
                format!("audit {a}..{b} -> {r}")
            }
            Q::EpochHash => match rd.r_epoch_hash().await {
                Ok(eh) => format!("epoch_hash -> ({}, {})", eh.0, short(&eh.1)),
                Err(e) => format!("epoch_hash -> Err({e:?})"),
            },
        }
    }
    for (i, b) in batches.iter().enumerate() {
        before_step!();
        let pres = if rc.spawned {
            let d = dir.clone();
            let bb = to_batch(b);
            match tokio::task::spawn(async move { d.publish(bb).await }).await {
                Ok(r) => r,
                Err(e) => return fail("panic", format!("publish task panicked: {e}")),
            }
        } else {
            dir.publish(to_batch(b)).await
        };
        match pres {
            Ok(eh) => {
                if eh.0 as usize == roots.len() {
                    roots.push(eh.1);
                }
                out.push(format!("publish#{i} -> Ok({}, {})", eh.0, short(&eh.1)));
            }
            Err(_) => out.push(format!("publish#{i} -> Err")),
        }
        for _ in 0..2 {
            if !case.script.is_empty() {
                before_step!();
                let q = &case.script[qi % case.script.len()];
                qi += 1;
                let s = if rc.read_only {
                    match new_ro::<TC, _>(manager(db.clone(), rc.cache), &key, rc.par).await {
                        Ok(ro) => answer::<TC>(&ro, &pk, &labels, &roots, q).await,
                        Err(f) => format!("read-only directory could not be opened: {}", f.msg),
                    }
                } else {
                    answer::<TC>(&dir, &pk, &labels, &roots, q).await
                };
                out.push(s);
            }
        }
    }
    let ro = if rc.read_only { Some(new_ro::<TC, _>(manager(db.clone(), rc.cache), &key, rc.par).await?) } else { None };
    for q in &case.script {
        before_step!();
        let s = match &ro {
            Some(ro) => answer::<TC>(ro, &pk, &labels, &roots, q).await,
            None => answer::<TC>(&dir, &pk, &labels, &roots, q).await,
        };
        out.push(s);
    }
    Ok(out)
}

thread_local! {
    static MT: tokio::runtime::Runtime = tokio::runtime::Builder::new_multi_thread().worker_threads(4).enable_time().build().unwrap();
}
static DIGESTS: std::sync::Mutex<Vec<(u64, u64)>> = std::sync::Mutex::new(Vec::new());

async fn run_case<TC: Tcfg>(case: &Case, ctx_runs: &mut u64) -> R {
    let expect = model_transcript::<TC>(case);
    for rc in &case.runs {
        let got = real_transcript::<TC>(case, rc).await?;
        *ctx_runs += 1;
        if got != expect {
            let i = got.iter().zip(expect.iter()).position(|(a, b)| a != b).unwrap_or(got.len().min(expect.len()));
            return fail(
                "transcript-differs",
                format!(
                    "feature set {FEATURE_SET}, configuration {rc:?}: transcript line {i} is `{}` but the model (and every other configuration) gives `{}`",
                    got.get(i).cloned().unwrap_or_else(|| "<missing>".into()),
                    expect.get(i).cloned().unwrap_or_else(|| "<missing>".into())
                ),
            );
        }
    }
    DIGESTS.lock().unwrap().push((fp_json(case), fp(&expect)));
    Ok(())
}

pub fn check(case: &Case, ctx: &mut Ctx) -> R {
    let mut runs = 0u64;
    let r = MT.with(|rt| {
        rt.block_on(async {
            match case.cfg {
                Cfg::Wa => run_case::<Wa>(case, &mut runs).await,
                Cfg::Exp => run_case::<Exp>(case, &mut runs).await,
            }
        })
    });
    ctx.count("configuration_runs", runs);
    let (_, info) = case.hist.resolve();
    let pars: std::collections::HashSet<_> = case.runs.iter().map(|r| r.par).collect();
    let caches: std::collections::HashSet<_> = case.runs.iter().map(|r| std::mem::discriminant(&r.cache)).collect();
    if case.runs.iter().any(|r| r.restarts != 0) {
        ctx.class("with_restarts");
    }
    if case.runs.iter().any(|r| r.read_only) {
        ctx.class("with_read_only_wrapper");
    }
    if pars.len() >= 2 && caches.len() >= 2 && info.effective >= 3 {
        ctx.nontrivial(fp_json(case));
        ctx.sample(case);
    }
    r
}

// ------------------------------------------------------------------ permutations / sub-batches within one epoch
#[derive(Serialize, Deserialize, Clone, Debug)]
pub struct PermCase {
    pub cfg: Cfg,
    pub set: LeafSet,
    /// generated orderings: each is a list of sort keys (cyclic) for the new leaves
    pub orders: Vec<Vec<u16>>,
    /// cut points (selectors) splitting the ordered leaves into sub-batches
    pub cuts: Vec<Vec<u16>>,
    pub par: ParKind,
}
fn latest_nodes(snap: &[DbRecord]) -> Vec<String> {
    let mut v: Vec<String> = snap
        .iter()
        .filter_map(|r| match r {
            DbRecord::TreeNode(t) => Some(format!("{:?}", t.latest_node)),
            _ => None,
        })
        .collect();
    v.sort();
    v
}
async fn perm_case<TC: Tcfg>(case: &PermCase, variants: &mut u64) -> R {
    let leaves = case.set.leaves();
    let base_epochs = case.set.epochs.clamp(1, 3) as u64 - 1;
    // leaves of the last epoch are the ones inserted in different orders / splits
    let old: std::collections::BTreeMap<[u8; 32], (D, u64)> = leaves.iter().filter(|(_, (_, e))| *e <= base_epochs).map(|(k, v)| (*k, *v)).collect();
    let new: Vec<AzksElement> = leaves.iter().filter(|(_, (_, e))| *e > base_epochs).map(|(l, (v, _))| AzksElement { label: NodeLabel::new(*l, 256), value: AzksValue(*v) }).collect();
    if new.is_empty() {
        return Ok(());
    }
    let model = model_root(TC::CFG, &leaves);
    let mut reference: Option<(D, Vec<String>)> = None;
    let n_var = case.orders.len().max(1);
    for vi in 0..n_var {
        let (st, mut azks): (StorageManager<AsyncInMemoryDatabase>, Azks) = build_tree::<TC>(&old, base_epochs).await?;
        let mut ordered = new.clone();
        if let Some(keys) = case.orders.get(vi) {
            if !keys.is_empty() {
                let mut idx: Vec<usize> = (0..ordered.len()).collect();
                idx.sort_by_key(|i| (keys[i % keys.len()], *i));
                ordered = idx.into_iter().map(|i| new[i]).collect();
            }
        }
        let mut cuts: Vec<usize> = case.cuts.get(vi).map(|c| c.iter().map(|s| sel(*s, ordered.len() + 1)).collect()).unwrap_or_default();
        cuts.push(0);
        cuts.push(ordered.len());
        cuts.sort();
        cuts.dedup();
        let target_epoch = azks.latest_epoch + 1;
        for w in cuts.windows(2) {
            // every sub-batch belongs to the same epoch (the auditor resets latest_epoch the same way)
            azks.latest_epoch = target_epoch - 1;
            azks.batch_insert_nodes::<TC, _>(&st, ordered[w[0]..w[1]].to_vec(), InsertMode::Directory, case.par.cfg()).await.map_err(akd_err("insert-err", "sub-batch insertion"))?;
        }
        *variants += 1;
        let root = azks.get_root_hash::<TC, _>(&st).await.map_err(akd_err("root-err", "root hash"))?;
        ensure!(root == model, "perm-root-differs-from-model", "order/split variant {vi} (cuts {cuts:?}): root hash differs from the model trie over the same leaf set");
        let nodes = latest_nodes(&snapshot(&st.get_db()).await);
        match &reference {
            None => reference = Some((root, nodes)),
            Some((r0, n0)) => {
                ensure!(*r0 == root, "perm-root-differs", "order/split variant {vi}: root hash differs from variant 0");
                if *n0 != nodes {
                    let d = nodes.iter().zip(n0.iter()).find(|(a, b)| a != b).map(|(a, b)| format!("{a} vs {b}")).unwrap_or_else(|| format!("{} vs {} nodes", nodes.len(), n0.len()));
                    return fail("perm-nodes-differ", format!("order/split variant {vi} (cuts {cuts:?}): latest node records differ from variant 0: {d}"));
                }
            }
        }
    }
    Ok(())
}
pub fn perm_check(case: &PermCase, ctx: &mut Ctx) -> R {
    let mut variants = 0;
    let r = MT.with(|rt| {
        rt.block_on(async {
            match case.cfg {
                Cfg::Wa => perm_case::<Wa>(case, &mut variants).await,
                Cfg::Exp => perm_case::<Exp>(case, &mut variants).await,
            }
        })
    });
    ctx.count("insertion_variants", variants);
    if variants >= 3 {
        ctx.nontrivial(fp_json(&case.set));
        ctx.sample(case);
    }
    r
}

pub fn q_strategy() -> impl Strategy<Value = Q> {
    prop_oneof![
        5 => any::<u16>().prop_map(Q::Lookup),
        2 => proptest::collection::vec(any::<u16>(), 1..4).prop_map(Q::Batch),
        4 => (any::<u16>(), prop_oneof![Just(HP::Complete), (1usize..4).prop_map(HP::MostRecent)]).prop_map(|(l, p)| Q::History(l, p)),
        3 => (any::<u16>(), any::<u16>()).prop_map(|(a, b)| Q::Audit(a, b)),
        1 => Just(Q::EpochHash),
    ]
}
pub fn par_strategy() -> impl Strategy<Value = ParKind> {
    prop_oneof![Just(ParKind::Disabled), Just(ParKind::Static(1)), Just(ParKind::Static(2)), Just(ParKind::Static(7)), Just(ParKind::Static(32)), Just(ParKind::Default)]
}
pub fn cachekind_strategy() -> impl Strategy<Value = CacheKind> {
    prop_oneof![Just(CacheKind::None), Just(CacheKind::Default), Just(CacheKind::ShortLife(2)), Just(CacheKind::Tiny(300)), (2u16..6, 200u16..2000, 2u16..4).prop_map(|(a, b, c)| CacheKind::Custom(a, b, c))]
}
pub fn runcfg_strategy() -> impl Strategy<Value = RunCfg> {
    (par_strategy(), cachekind_strategy(), prop_oneof![2 => Just(0u32), 2 => any::<u32>(), 1 => Just(u32::MAX)], any::<bool>(), prop_oneof![2 => Just(0u32), 1 => any::<u32>().prop_map(|x| x & 0x1111_1111)])
        .prop_map(|(par, cache, restarts, read_only, pauses)| RunCfg { par, cache, restarts, read_only, pauses: if matches!(cache, CacheKind::ShortLife(_) | CacheKind::Custom(..)) { pauses } else { 0 }, spawned: restarts % 3 == 1, yields: [0u8, 1, 0, 2, 3][(restarts % 5) as usize] })
}

pub fn strategy(thorough: bool) -> impl Strategy<Value = Case> {
    let (max_e, nruns) = if thorough { (10, 24) } else { (7, 6) };
    (
        prop_oneof![Just(Cfg::Wa), Just(Cfg::Exp)],
        mixed_hist_strategy(max_e, 6),
        proptest::collection::vec(q_strategy(), 2..10),
        proptest::collection::vec(runcfg_strategy(), nruns),
    )
        .prop_map(|(cfg, hist, script, mut runs)| {
            // the first run is always the plain baseline
            runs[0] = RunCfg { par: ParKind::Disabled, cache: CacheKind::None, restarts: 0, read_only: false, pauses: 0, spawned: false, yields: 0 };
            Case { cfg, hist, script, runs }
        })
}

/// the full cross product parallelism x cache (thorough)
fn cross_product() -> Vec<RunCfg> {
    let mut v = vec![];
    for par in [ParKind::Disabled, ParKind::Static(1), ParKind::Static(2), ParKind::Static(7), ParKind::Static(32), ParKind::Default] {
        for cache in [CacheKind::None, CacheKind::Default, CacheKind::ShortLife(2), CacheKind::Tiny(300)] {
            for (restarts, read_only) in [(0u32, false), (0x5555_5555, false), (u32::MAX, true), (0, true)] {
                v.push(RunCfg { par, cache, restarts, read_only, pauses: if matches!(cache, CacheKind::ShortLife(_)) { 0x0101_0101 } else { 0 }, spawned: restarts == 0x5555_5555, yields: (restarts == 0) as u8 });
            }
        }
    }
    v
}

pub fn run(eng: &mut Engine) {
    let thorough = eng.tier == Tier::Thorough;
    eng.max_shrink = Some(80);
    eng.assume(&format!("this evidence was written by the binary built with feature set {FEATURE_SET}; ./check C14 runs the same check with the other feature build as well and compares the per-case transcript digests of the two binaries"));
    eng.assume("runs on a 4-worker multi-thread runtime so that spawned insertion / preload tasks really run in parallel; real 3 ms pauses let 2 ms cache entries expire (timing never decides the verdict)");
    eng.prop_part(
        "configurations",
        "a generated history + query script (lookup, batch lookup, history, audit incl. invalid ranges, epoch hash; two queries after every publish, all at the end) executed under a baseline and generated configurations: insertion/preload parallelism {disabled, static 1/2/7/32, available-or-32}, cache {none, default, 2 ms lifetime with real pauses, 300-byte limit, generated lifetime/limit/clean frequency}, restart masks (directory object dropped and re-created before arbitrary steps), read-only wrapper; the canonical transcript (epoch hashes, verification outcomes, verified results) of every run must equal the model's; non-trivial = >=2 parallelism settings AND >=2 cache kinds over a history with >=3 effective epochs; distinct by case",
        eng.tier.pick(500, 4000),
        move || strategy(thorough),
        check,
    );
    if thorough {
        eng.prop_part(
            "cross_product",
            "the full cross product parallelism(6) x cache(4) x restart/read-only(4) = 96 configurations per generated history",
            150,
            || {
                (prop_oneof![Just(Cfg::Wa), Just(Cfg::Exp)], mixed_hist_strategy(8, 6), proptest::collection::vec(q_strategy(), 3..8)).prop_map(|(cfg, hist, script)| Case { cfg, hist, script, runs: cross_product() })
            },
            check,
        );
    }
    eng.prop_part(
        "order_and_split",
        "the leaves of one epoch (on top of 0-2 earlier epochs) inserted in generated orders and split into generated sub-batches within the same epoch (latest_epoch reset between sub-batches, as the auditor does), under generated parallelism: root hash equal to the model trie and to every other variant, and identical latest node records; non-trivial = >=3 variants; distinct by leaf set",
        eng.tier.pick(2500, 30_000),
        || {
            (
                prop_oneof![Just(Cfg::Wa), Just(Cfg::Exp)],
                crate::props::c05::leafset_strategy(24),
                proptest::collection::vec(proptest::collection::vec(any::<u16>(), 0..12), 3..6),
                proptest::collection::vec(proptest::collection::vec(any::<u16>(), 0..4), 3..6),
                par_strategy(),
            )
                .prop_map(|(cfg, set, orders, cuts, par)| PermCase { cfg, set, orders, cuts, par })
        },
        perm_check,
    );
    // per-case transcript digests for the A/B differential
    let mut d = DIGESTS.lock().unwrap().clone();
    d.sort();
    d.dedup();
    if let Ok(path) = std::env::var("VERIF_C14_DIGEST") {
        if let Ok(mut f) = std::fs::File::create(&path) {
            for (a, b) in &d {
                let _ = writeln!(f, "{a:016x} {b:016x}");
            }
        }
    }
    // compare with the digests written by the other feature build for the same seed and tier
    if let Ok(path) = std::env::var("VERIF_C14_OTHER_DIGEST") {
        let other: Vec<(u64, u64)> = std::fs::read_to_string(&path)
            .unwrap_or_default()
            .lines()
            .filter_map(|l| {
                let (a, b) = l.split_once(' ')?;
                Some((u64::from_str_radix(a, 16).ok()?, u64::from_str_radix(b, 16).ok()?))
            })
            .collect();
        let mine = d.clone();
        eng.enum_part(
            "feature_builds",
            "differential between the two feature builds: the sorted list of (case fingerprint, transcript digest) pairs written by the binary built WITHOUT parallel_vrf / preload_history / greedy_lookup_preload for the same seed and tier must be identical to this binary's list; every compared case is non-trivial",
            false,
            vec![0u8],
            move |_, ctx| {
                ctx.evals += mine.len() as u64;
                for (a, _) in &mine {
                    ctx.nontrivial(*a);
                }
                ctx.count("cases_compared_between_feature_builds", mine.len() as u64);
                ctx.sample(&serde_json::json!({"this_build": FEATURE_SET, "digests_this_build": mine.len(), "digests_other_build": other.len(), "first": mine.first().map(|(a, b)| format!("{a:016x} {b:016x}"))}));
                if mine != other {
                    let diff = mine.iter().find(|x| !other.contains(x)).or_else(|| other.iter().find(|x| !mine.contains(x)));
                    return Err((serde_json::json!({"digest": diff.map(|(a, b)| format!("{a:016x} {b:016x}"))}), Fail { sig: "feature-builds-differ".into(), msg: format!("the two feature builds produced different transcripts or cases ({} vs {} digests), first difference {:?}", mine.len(), other.len(), diff) }));
                }
                Ok(())
            },
            |_, _| Ok(()),
        );
    }
}
