//! Shared by C02 / C03 / C04: a read request under storage faults, and a reader instance that
//! has fallen behind, must answer with an error or with a proof that verifies to the model's
//! state at the epoch the answer names - never with Ok and a proof that does not verify.
use crate::dirx::*;
use crate::engine::*;
use crate::gen::*;
use crate::model::*;
use crate::vdb::*;
use crate::ensure;
use akd::AkdLabel;
use proptest::prelude::*;
use serde::{Deserialize, Serialize};

#[derive(Serialize, Deserialize, Clone, Copy, Debug, PartialEq, Eq)]
pub enum Kind {
    Lookup,
    History,
    Audit,
}
#[derive(Serialize, Deserialize, Clone, Debug)]
pub struct Case {
    pub cfg: Cfg,
    pub hist: Hist,
    pub cached: bool,
    pub picks: Vec<u16>,
}
#[derive(Default)]
pub struct Stats {
    fault_runs: u64,
    ok_despite_fault: u64,
    stale_answers: u64,
    stale_ok: u64,
}

/// judge one answer: Err is fine; Ok must name a published pair and verify to the model at that epoch
async fn judge<TC: Tcfg>(kind: Kind, m: &Model, pk: &[u8], l: &[u8], p: HP, rng: (u64, u64), rd: &dyn Reader, what: &str) -> R<bool> {
    let pair_ok = |eh: &akd::EpochHash| -> R {
        ensure!(eh.0 <= m.epoch && eh.1 == m.roots[eh.0 as usize], "read-wrong-epoch-hash", "{what}: answer names ({}, {}) which was never published", eh.0, hex::encode(&eh.1[..6]));
        Ok(())
    };
    match kind {
        Kind::Lookup => match rd.r_lookup(AkdLabel(l.to_vec())).await {
            Err(_) => Ok(false),
            Ok((proof, eh)) => {
                pair_ok(&eh)?;
                let r = verify_lookup::<TC>(pk, eh.1, eh.0, l, proof);
                ensure!(r.is_ok() && r.as_ref().ok() == expected_lookup(m, l, eh.0).as_ref(), "read-ok-but-does-not-verify", "{what}: lookup of {} returned Ok but verification against the returned ({}, root) gives {r:?}", hex::encode(l), eh.0);
                // batch path too
                if let Ok((ps, beh)) = rd.r_batch_lookup(&[AkdLabel(l.to_vec())]).await {
                    pair_ok(&beh)?;
                    let r = verify_lookup::<TC>(pk, beh.1, beh.0, l, ps[0].clone());
                    ensure!(r.is_ok() && r.as_ref().ok() == expected_lookup(m, l, beh.0).as_ref(), "read-ok-but-does-not-verify", "{what}: batch_lookup of {} returned Ok but verification gives {r:?}", hex::encode(l));
                }
                Ok(true)
            }
        },
        Kind::History => match rd.r_history(&AkdLabel(l.to_vec()), p.to()).await {
            Err(_) => Ok(false),
            Ok((proof, eh)) => {
                pair_ok(&eh)?;
                let r = verify_history::<TC>(pk, eh.1, eh.0, l, proof, p.to(), false);
                ensure!(r.is_ok() && r.as_ref().ok() == Some(&expected_history(m, l, eh.0, p)), "read-ok-but-does-not-verify", "{what}: key_history of {} ({p:?}) returned Ok but verification against the returned ({}, root) gives {r:?}", hex::encode(l), eh.0);
                Ok(true)
            }
        },
        Kind::Audit => match rd.r_audit(rng.0, rng.1).await {
            Err(_) => Ok(false),
            Ok(ap) => {
                ensure!(rng.0 < rng.1 && rng.1 <= m.epoch, "read-invalid-audit-range", "{what}: audit({},{}) answered with only {} epochs", rng.0, rng.1, m.epoch);
                let r = akd::auditor::audit_verify::<TC>(m.roots[rng.0 as usize..=rng.1 as usize].to_vec(), ap).await;
                ensure!(r.is_ok(), "read-ok-but-does-not-verify", "{what}: audit({},{}) returned Ok but does not verify against the published roots: {:?}", rng.0, rng.1, r.err());
                Ok(true)
            }
        },
    }
}

async fn run_case<TC: Tcfg>(kind: Kind, case: &Case, st: &mut Stats) -> R {
    let key = key_bytes(case.hist.key);
    let pk = public_key(&key);
    let vdb = VDb::new();
    let mut m = Model::new(TC::CFG, &key);
    let w = new_dir::<TC, _>(manager(vdb.clone(), CacheKind::None), &key, ParKind::Disabled).await?;
    let (batches, _) = case.hist.resolve();
    let mut labels = case.hist.labels.clone();
    labels.sort();
    labels.dedup();
    let pick = |i: usize, n: usize| sel(case.picks[i % case.picks.len()], n.max(1));
    // a cached reader kept across epochs (falls behind by 1, 2, ... epochs until it is re-created)
    let mut stale: Option<(RoDir<TC, VDb>, u64)> = None;
    for (i, b) in batches.iter().enumerate() {
        if !publish_both::<TC, _>(&w, &mut m, b, i).await? {
            continue;
        }
        let e = m.epoch;
        let l = labels[pick(i, labels.len())].clone();
        let p = [HP::Complete, HP::MostRecent(1), HP::MostRecent(2), HP::MostRecent(3)][pick(i + 1, 4)];
        let rng = {
            let a = pick(i + 2, e as usize + 1) as u64;
            let b = pick(i + 3, e as usize + 1) as u64;
            (a.min(b), a.max(b).max(a.min(b) + 1).min(e))
        };
        // --- the lagging reader answers (or errs) consistently
        if let Some((ro, born)) = &stale {
            st.stale_answers += 1;
            if judge::<TC>(kind, &m, &pk, &l, p, rng, ro, &format!("cached read-only instance created at epoch {born}, storage now at epoch {e}")).await? {
                st.stale_ok += 1;
            }
        }
        if stale.is_none() || pick(i + 4, 3) == 0 {
            let ro = new_ro::<TC, _>(manager(vdb.clone(), CacheKind::Default), &key, ParKind::Disabled).await?;
            // warm it with the same request so that it really caches this epoch's view
            let _ = judge::<TC>(kind, &m, &pk, &l, p, rng, &ro, "fresh cached read-only instance").await?;
            stale = Some((ro, e));
        }
        // --- fault sweep over every storage operation of the request
        let rd = new_dir::<TC, _>(manager(vdb.clone(), if case.cached { CacheKind::Default } else { CacheKind::None }), &key, ParKind::Disabled).await?;
        vdb.reset_ops();
        let ok = judge::<TC>(kind, &m, &pk, &l, p, rng, &rd, "fault-free request").await?;
        let k_total = vdb.op_count();
        if kind != Kind::Audit || rng.0 < rng.1 {
            let published = !m.versions_at(&l, e).is_empty();
            ensure!(ok || (kind != Kind::Audit && !published) || (kind == Kind::Audit && !(rng.0 < rng.1 && rng.1 <= e)), "read-failed-without-fault", "fault-free {kind:?} request at epoch {e} failed");
        }
        for k in 0..k_total.min(80) {
            let rd = new_dir::<TC, _>(manager(vdb.clone(), if case.cached { CacheKind::Default } else { CacheKind::None }), &key, ParKind::Disabled).await?;
            vdb.reset_ops();
            vdb.set_fault(Some(k), pick(k as usize, 2) == 0);
            let r = judge::<TC>(kind, &m, &pk, &l, p, rng, &rd, &format!("storage fault at operation {k}/{k_total} of the request at epoch {e}")).await;
            vdb.set_fault(None, false);
            st.fault_runs += 1;
            if r? {
                st.ok_despite_fault += 1;
            }
        }
    }
    Ok(())
}

pub fn check(kind: Kind, case: &Case, ctx: &mut Ctx) -> R {
    let mut st = Stats::default();
    let r = block_on(async {
        match case.cfg {
            Cfg::Wa => run_case::<Wa>(kind, case, &mut st).await,
            Cfg::Exp => run_case::<Exp>(kind, case, &mut st).await,
        }
    });
    ctx.count("requests_with_injected_fault", st.fault_runs);
    ctx.count("requests_answered_ok_despite_fault(all verified)", st.ok_despite_fault);
    ctx.count("lagging_reader_requests", st.stale_answers);
    ctx.count("lagging_reader_non_error_answers(all verified)", st.stale_ok);
    if st.fault_runs > 0 && st.stale_answers > 0 {
        ctx.nontrivial(fp_json(case));
        ctx.sample(case);
    }
    r
}

pub fn strategy() -> impl Strategy<Value = Case> {
    (prop_oneof![Just(Cfg::Wa), Just(Cfg::Exp)], prop_oneof![2 => hist_strategy(2, 6, 5, 6), 1 => deep_hist_strategy(7)], any::<bool>(), proptest::collection::vec(any::<u16>(), 4..10)).prop_map(|(cfg, hist, cached, picks)| Case { cfg, hist, cached, picks })
}

pub fn add_part(eng: &mut Engine, kind: Kind) {
    let cases = eng.tier.pick(300, 4000);
    eng.prop_part(
        "faulty_and_lagging_reads",
        "after every effective publish of a generated history one request of this property's kind (generated label / parameter / range) is (a) issued on a cached read-only instance kept from an earlier epoch (lag 1, 2, ...) and (b) repeated with EVERY storage operation of the request failed in turn (single fault or outage), on cached and uncached instances; oracle: the answer is an error, or names a published (epoch, root) and verifies to the model's state at that epoch - never Ok with a proof that does not verify; non-trivial = case with fault runs and lagging-reader requests; distinct by case",
        cases,
        strategy,
        move |c: &Case, ctx: &mut Ctx| check(kind, c, ctx),
    );
}
