//! C07 - a verifying history proof cannot hide, reorder, invent or misdate versions.
use crate::dirx::*;
use crate::engine::*;
use crate::forge::*;
use crate::gen::*;
use crate::model::*;
use crate::{both_cfgs, ensure};
use akd::storage::memory::AsyncInMemoryDatabase;
use akd::storage::types::ValueState;
use akd::{AkdLabel, AkdValue, AzksValue, HistoryProof, NodeLabel, VerifyResult};
use proptest::prelude::*;
use serde::{Deserialize, Serialize};

#[derive(Serialize, Deserialize, Clone, Debug)]
pub struct Case {
    pub hist: Hist,
    pub picks: Vec<u16>,
    /// epochs (selectors) at which the candidate sweep runs, besides the last one
    pub at: Vec<u16>,
}
#[derive(Default)]
pub struct Stats {
    candidates: u64,
    accepted: u64,
    truncations: u64,
    controls: u64,
    dishonest: u64,
}

struct Judge<'a> {
    m: &'a Model,
    pk: &'a [u8],
    root: D,
    epoch: u64,
}
impl<'a> Judge<'a> {
    /// soundness oracle under parameter `p` and both verifier modes
    fn check<TC: Tcfg>(&self, label: &[u8], p: HP, cand: &HistoryProof, what: &str, st: &mut Stats) -> R<bool> {
        let truth = expected_history(self.m, label, self.epoch, p);
        let mut any = false;
        for allow_missing in [false, true] {
            st.candidates += 1;
            if let Ok(list) = verify_history::<TC>(self.pk, self.root, self.epoch, label, cand.clone(), p.to(), allow_missing) {
                st.accepted += 1;
                any = true;
                let same = list.len() == truth.len()
                    && list.iter().zip(truth.iter()).all(|(a, b)| a.epoch == b.epoch && a.version == b.version && (a.value == b.value || (allow_missing && a.value.0.is_empty())));
                // known finding: under AllowMissingValues the epoch of a tombstoned version-1 entry is not
                // authenticated (no stale marker of a previous version binds it, and the leaf hash cannot
                // be recomputed without the value). Exactly this shape is excluded and counted.
                let only_v1_tombstone_epoch = allow_missing
                    && list.len() == truth.len()
                    && list.iter().zip(truth.iter()).all(|(a, b)| {
                        a.version == b.version && (a.value == b.value || a.value.0.is_empty()) && (a.epoch == b.epoch || (a.version == 1 && a.value.0.is_empty()))
                    });
                if !same && only_v1_tombstone_epoch && known_hit("history-tombstoned-v1-epoch-unauthenticated") {
                    continue;
                }
                ensure!(
                    same,
                    if only_v1_tombstone_epoch { "history-tombstoned-v1-epoch-unauthenticated" } else { "history-accepts-wrong-list" },
                    "epoch {}: history verification ({p:?}, allow_missing={allow_missing}) of label {} accepted {what} and reports {:?}; the true list is {:?}",
                    self.epoch,
                    hex::encode(label),
                    short(&list),
                    short(&truth)
                );
            }
        }
        Ok(any)
    }
}
fn short(v: &[VerifyResult]) -> Vec<(u64, u64, String)> {
    v.iter().map(|r| (r.version, r.epoch, hex::encode(&r.value.0[..r.value.0.len().min(6)]))).collect()
}

async fn sweep<TC: Tcfg>(sys: &Sys<TC, AsyncInMemoryDatabase>, stm: &akd::storage::StorageManager<AsyncInMemoryDatabase>, labels: &[Vec<u8>], picks: &[u16], st: &mut Stats) -> R {
    let e = sys.m.epoch;
    let j = Judge { m: &sys.m, pk: &sys.pk, root: sys.m.roots[e as usize], epoch: e };
    let fg = Forger::new(stm, &sys.key).await;
    let mut pi = 0usize;
    let mut pick = |n: usize| -> usize {
        let s = if picks.is_empty() { 0 } else { picks[pi % picks.len()] };
        pi += 1;
        sel(s, n.max(1))
    };
    // invented history for a never-published label: version 1 with a tombstone value, existence "proved"
    // by the root value with an empty sibling list, honest absence proofs for the future markers
    for l in labels.iter().filter(|l| sys.m.versions_at(l, e).is_empty()).take(1).chain(std::iter::once(&b"c07-never-published".to_vec())) {
        if !sys.m.versions_at(l, e).is_empty() {
            continue;
        }
        for ep in [1u64, e] {
            let fake = MVersion { version: 1, value: vec![], epoch: ep };
            let mut cand = fg.history_proof::<TC>(l, &[fake], e, 0).await;
            let root = fg.tree().root().await;
            cand.update_proofs[0].existence_proof = akd::MembershipProof { label: fg.node_label::<TC>(l, true, 1).await, hash_val: root.hash, sibling_proofs: vec![] };
            for p in [HP::Complete, HP::MostRecent(1)] {
                j.check::<TC>(l, p, &cand, "an invented version 1 (tombstone value, existence forged from the root value) for a never-published label", st)?;
            }
            let plain = fg.history_proof::<TC>(l, &[MVersion { version: 1, value: b"x".to_vec(), epoch: ep }], e, 0).await;
            j.check::<TC>(l, HP::Complete, &plain, "an invented version 1 for a never-published label", st)?;
        }
    }
    let mut with_versions: Vec<&Vec<u8>> = labels.iter().filter(|l| !sys.m.versions_at(l, e).is_empty()).collect();
    with_versions.sort_by_key(|l| std::cmp::Reverse(sys.m.versions_at(l, e).len()));
    for l in with_versions.into_iter().take(3) {
        let vers: Vec<MVersion> = sys.m.versions_at(l, e).into_iter().rev().collect(); // newest first
        let total = vers.len();
        let mut params = vec![HP::Complete, HP::MostRecent(1), HP::MostRecent(total)];
        if total > 2 {
            params.push(HP::MostRecent(total - 1));
        }
        params.push(HP::MostRecent(total + 2));
        for p in params.clone() {
            // control: the honest proof
            let (hp, _) = sys.dir.key_history(&AkdLabel(l.clone()), p.to()).await.map_err(akd_err("history-err", "honest key_history"))?;
            st.controls += 1;
            ensure!(j.check::<TC>(l, p, &hp, "the honest proof", st)?, "history-control-rejected", "epoch {e}: honest history proof ({p:?}) of {} does not verify", hex::encode(l));
            let native: Vec<MVersion> = match p {
                HP::Complete => vers.clone(),
                HP::MostRecent(n) => vers.iter().take(n).cloned().collect(),
            };
            // second control: the forger's assembly of the same list
            let own = fg.history_proof::<TC>(l, &native, e, 0).await;
            ensure!(j.check::<TC>(l, p, &own, "the forger's honest assembly", st)?, "forger-control-rejected", "epoch {e}: history proof assembled by the harness for the true list does not verify (harness bug)");
            let other = params[pick(params.len())];
            let mut cands: Vec<(String, HistoryProof)> = vec![];
            // --- truncations with forged absence proofs for the then-needed future markers, at every anchor depth
            for k in 1..=2usize.min(native.len().saturating_sub(1)) {
                for choice in 0..6 {
                    st.truncations += 1;
                    cands.push((format!("newest {k} version(s) dropped, future markers forged with absence candidate #{choice}"), fg.history_proof::<TC>(l, &native[k..], e, choice).await));
                }
                let mut raw = hp.clone();
                raw.update_proofs.drain(..k);
                cands.push((format!("newest {k} update proof(s) removed, markers untouched"), raw));
            }
            // --- drop oldest, gaps, duplicates, reorderings
            if native.len() >= 2 {
                cands.push(("oldest version dropped (markers rebuilt)".into(), fg.history_proof::<TC>(l, &native[..native.len() - 1], e, 0).await));
                let mut raw = hp.clone();
                raw.update_proofs.pop();
                cands.push(("oldest update proof removed".into(), raw));
                let mut raw = hp.clone();
                raw.update_proofs.swap(0, 1);
                cands.push(("two newest update proofs swapped".into(), raw));
                let mut raw = hp.clone();
                raw.update_proofs.reverse();
                cands.push(("update proofs reversed".into(), raw));
            }
            if native.len() >= 3 {
                let mid = 1 + pick(native.len() - 2);
                let mut g = native.clone();
                g.remove(mid);
                cands.push((format!("version {} left out (gap, markers rebuilt)", native[mid].version), fg.history_proof::<TC>(l, &g, e, 0).await));
            }
            let mut raw = hp.clone();
            raw.update_proofs.insert(0, hp.update_proofs[0].clone());
            cands.push(("newest update proof duplicated".into(), raw));
            // --- substituted values / epochs
            let i = pick(native.len());
            let mut raw = own.clone();
            raw.update_proofs[i].value = AkdValue([native[i].value.clone(), b"~".to_vec()].concat());
            cands.push((format!("value of version {} altered", native[i].version), raw.clone()));
            raw.update_proofs[i].commitment_nonce = fg.nonce::<TC>(&raw.update_proofs[i].existence_proof.label, native[i].version, &raw.update_proofs[i].value.0);
            cands.push((format!("value of version {} altered with recomputed nonce", native[i].version), raw));
            if native.len() >= 2 {
                let k = (i + 1) % native.len();
                let mut raw = own.clone();
                raw.update_proofs[i].value = AkdValue(native[k].value.clone());
                raw.update_proofs[i].commitment_nonce = own.update_proofs[k].commitment_nonce.clone();
                cands.push((format!("value and nonce of version {} substituted by those of version {}", native[i].version, native[k].version), raw));
            }
            for de in [native[i].epoch.wrapping_sub(1), native[i].epoch + 1] {
                let mut raw = own.clone();
                raw.update_proofs[i].epoch = de;
                cands.push((format!("epoch of version {} altered to {de}", native[i].version), raw.clone()));
                raw.update_proofs[i].existence_proof.hash_val = AzksValue(leaf_with_epoch(TC::CFG, &commitment(TC::CFG, &h(TC::CFG, &[&sys.key]), &raw.update_proofs[i].existence_proof.label.label_val, native[i].version, &native[i].value), de));
                cands.push((format!("epoch and leaf hash of version {} re-dated to {de}", native[i].version), raw));
            }
            // tombstoned value: acceptable only when the verifier opted in (handled inside the oracle)
            let mut raw = own.clone();
            raw.update_proofs[i].value = AkdValue(vec![]);
            cands.push((format!("value of version {} replaced by a tombstone", native[i].version), raw));
            // version numbers shifted
            let mut raw = own.clone();
            for u in raw.update_proofs.iter_mut() {
                u.version += 1;
            }
            cands.push(("all version numbers shifted by one".into(), raw));
            // --- marker proofs: omitted, surplus, swapped, foreign
            if !own.past_marker_vrf_proofs.is_empty() {
                let mut raw = own.clone();
                raw.past_marker_vrf_proofs.pop();
                raw.existence_of_past_marker_proofs.pop();
                cands.push(("one past marker proof omitted".into(), raw));
                let mut raw = own.clone();
                let root = fg.tree().root().await;
                let k = raw.existence_of_past_marker_proofs.len() - 1;
                raw.existence_of_past_marker_proofs[k] = akd::MembershipProof { label: raw.existence_of_past_marker_proofs[k].label, hash_val: root.hash, sibling_proofs: vec![] };
                cands.push(("past marker proof forged from the root value".into(), raw));
            }
            if !own.future_marker_vrf_proofs.is_empty() {
                let mut raw = own.clone();
                raw.future_marker_vrf_proofs.pop();
                raw.non_existence_of_future_marker_proofs.pop();
                cands.push(("one future marker proof omitted".into(), raw));
                if own.future_marker_vrf_proofs.len() >= 2 {
                    let mut raw = own.clone();
                    raw.non_existence_of_future_marker_proofs.swap(0, 1);
                    cands.push(("two future marker proofs swapped".into(), raw));
                }
            }
            let mut raw = own.clone();
            raw.future_marker_vrf_proofs.push(fg.vrf_proof::<TC>(l, true, e + 1).await);
            let nl = fg.node_label::<TC>(l, true, e + 1).await;
            raw.non_existence_of_future_marker_proofs.push(fg.absences::<TC>(nl).await[0].clone());
            cands.push(("surplus future marker proof".into(), raw));
            // --- missing / substituted previous-version (stale) proofs
            if let Some(k) = own.update_proofs.iter().position(|u| u.version > 1) {
                let mut raw = own.clone();
                raw.update_proofs[k].previous_version_proof = None;
                raw.update_proofs[k].previous_version_vrf_proof = None;
                cands.push((format!("stale proof of version {} omitted", native[k].version - 1), raw));
                let mut raw = own.clone();
                raw.update_proofs[k].previous_version_proof = Some(own.update_proofs[k].existence_proof.clone());
                cands.push(("stale proof replaced by the existence proof".into(), raw));
            }
            for (what, cand) in cands {
                j.check::<TC>(l, p, &cand, &what, st)?;
                if !matches!((p, other), (HP::Complete, HP::Complete)) {
                    j.check::<TC>(l, other, &cand, &format!("{what} [generated for {p:?}, verified under {other:?}]"), st)?;
                }
            }
            // the honest proof under every other parameter
            for q in &params {
                j.check::<TC>(l, *q, &hp, &format!("the honest {p:?} proof verified under {q:?}"), st)?;
            }
        }
    }
    Ok(())
}

async fn run_cfg<TC: Tcfg>(case: &Case, st: &mut Stats) -> R {
    let db = AsyncInMemoryDatabase::new();
    let stm = manager(db.clone(), CacheKind::None);
    let mut sys = Sys::<TC, _>::new(stm.clone(), case.hist.key, ParKind::Disabled).await?;
    let (batches, _) = case.hist.resolve();
    let mut labels = case.hist.labels.clone();
    labels.sort();
    labels.dedup();
    let at: Vec<usize> = case.at.iter().map(|s| sel(*s, batches.len())).collect();
    for (i, b) in batches.iter().enumerate() {
        let changed = sys.publish(b, i).await?;
        if changed && (at.contains(&i) || i + 1 == batches.len()) {
            sweep::<TC>(&sys, &stm, &labels, &case.picks, st).await?;
        }
    }
    // ---------------- a tree that fails to retire a superseded version in the epoch of its replacement
    let e = sys.m.epoch;
    let cands: Vec<&Vec<u8>> = labels.iter().filter(|l| !sys.m.versions_at(l, e).is_empty()).collect();
    if cands.is_empty() {
        return Ok(());
    }
    let target = cands[sel(case.picks.first().copied().unwrap_or(0), cands.len())].clone();
    let latest = sys.m.latest_at(&target, e).unwrap();
    let c = TC::CFG;
    let fg = Forger::new(&stm, &sys.key).await;
    let nv = latest.version + 1;
    let new_value = b"dishonest-update".to_vec();
    let fnl = fg.node_label::<TC>(&target, true, nv).await;
    let snl = fg.node_label::<TC>(&target, false, latest.version).await;
    let cm = commitment(c, &h(c, &[&sys.key]), &fnl.label_val, nv, &new_value);
    let late = case.picks.get(1).copied().unwrap_or(0) % 3; // 0 = never marked, 1 = marked one epoch late, 2 = two epochs late
    // dishonest epoch: fresh leaf of version nv without the stale marker of the previous version
    let e1 = raw_publish::<TC, _>(&stm, vec![(fnl, AzksValue(cm))], vec![ValueState { value: AkdValue(new_value.clone()), version: nv, label: fnl, epoch: e + 1, username: AkdLabel(target.clone()) }])
        .await
        .map_err(|x| Fail { sig: "raw-publish-err".into(), msg: x })?;
    let mut leaves = sys.m.leaves.clone();
    leaves.insert(fnl.label_val, (cm, e1));
    let mut m2_users = sys.m.versions_at(&target, e);
    m2_users.push(MVersion { version: nv, value: new_value.clone(), epoch: e1 });
    let mut cur_epoch = e1;
    if late >= 2 {
        // an unrelated honest-looking epoch in between
        let onl = fg.node_label::<TC>(b"c07-bystander", true, 1).await;
        let ocm = commitment(c, &h(c, &[&sys.key]), &onl.label_val, 1, b"v");
        cur_epoch = raw_publish::<TC, _>(&stm, vec![(onl, AzksValue(ocm))], vec![ValueState { value: AkdValue(b"v".to_vec()), version: 1, label: onl, epoch: cur_epoch + 1, username: AkdLabel(b"c07-bystander".to_vec()) }])
            .await
            .map_err(|x| Fail { sig: "raw-publish-err".into(), msg: x })?;
        leaves.insert(onl.label_val, (ocm, cur_epoch));
    }
    if late >= 1 {
        cur_epoch = raw_publish::<TC, _>(&stm, vec![(snl, AzksValue(stale_value(c)))], vec![]).await.map_err(|x| Fail { sig: "raw-publish-err".into(), msg: x })?;
        leaves.insert(snl.label_val, (stale_value(c), cur_epoch));
    }
    let root = model_root(c, &leaves);
    let dir2 = new_dir::<TC, _>(manager(db.clone(), CacheKind::None), &sys.key, ParKind::Disabled).await?;
    let eh = dir2.get_epoch_hash().await.map_err(akd_err("epoch-hash-err", "dishonest tree"))?;
    ensure!(eh.0 == cur_epoch && eh.1 == root, "dishonest-tree-root", "harness: dishonest tree root differs from the model trie");
    st.dishonest += 1;
    let fg2 = Forger::new(&stm, &sys.key).await;
    let all: Vec<MVersion> = m2_users.iter().rev().cloned().collect();
    for p in [HP::Complete, HP::MostRecent(1), HP::MostRecent(2), HP::MostRecent(all.len() + 1)] {
        let covered: Vec<MVersion> = match p {
            HP::Complete => all.clone(),
            HP::MostRecent(n) => all.iter().take(n).cloned().collect(),
        };
        // the un-retired transition (version nv replacing nv-1) is part of every list that contains version nv
        let mut cands: Vec<(String, HistoryProof)> = vec![];
        if let Ok((hp, _)) = dir2.key_history(&AkdLabel(target.clone()), p.to()).await {
            cands.push(("the server's own history proof".into(), hp));
        }
        let own = fg2.history_proof::<TC>(&target, &covered, cur_epoch, 0).await;
        cands.push(("the forger's assembly".into(), own.clone()));
        let mut x = own.clone();
        x.update_proofs[0].previous_version_proof = Some(fg2.membership::<TC>(fg2.node_label::<TC>(&target, true, latest.version).await).await);
        cands.push(("stale proof replaced by the fresh leaf of the old version".into(), x));
        if late >= 1 {
            let mut x = own.clone();
            x.update_proofs[0].epoch = cur_epoch;
            cands.push(("update re-dated to the epoch of the late stale marker".into(), x));
        }
        for (what, cand) in cands {
            for allow_missing in [false, true] {
                st.candidates += 1;
                let r = verify_history::<TC>(&sys.pk, root, cur_epoch, &target, cand.clone(), p.to(), allow_missing);
                ensure!(
                    r.is_err(),
                    "history-accepts-unretired-version",
                    "a tree where version {} of label {} was not retired in the epoch of its replacement ({}): {what} ({p:?}, allow_missing={allow_missing}) verifies: {:?}",
                    latest.version,
                    hex::encode(&target),
                    ["never marked stale", "marked one epoch late", "marked two epochs late"][late as usize],
                    r.ok().map(|l| short(&l))
                );
            }
        }
    }
    let _ = NodeLabel::root();
    Ok(())
}

pub fn check(case: &Case, ctx: &mut Ctx) -> R {
    let mut st = Stats::default();
    let r = (|| {
        both_cfgs!(run_cfg(case, &mut st));
        Ok(())
    })();
    ctx.count("candidate_verifications", st.candidates);
    ctx.count("accepted(all truthful)", st.accepted);
    ctx.count("truncation_candidates_with_forged_absence", st.truncations);
    ctx.count("honest_controls", st.controls);
    ctx.count("dishonest_trees(missing/late stale marker)", st.dishonest);
    if st.truncations > 0 || st.dishonest > 0 {
        ctx.nontrivial(fp_json(case));
        ctx.sample(case);
    }
    r
}

pub fn strategy(thorough: bool) -> impl Strategy<Value = Case> {
    let max_e = if thorough { 12 } else { 6 };
    (
        prop_oneof![1 => hist_strategy(2, max_e, 4, 5), 2 => deep_hist_strategy(max_e + 2)],
        proptest::collection::vec(any::<u16>(), 3..8),
        proptest::collection::vec(any::<u16>(), 0..2),
    )
        .prop_map(|(hist, picks, at)| Case { hist, picks, at })
}

pub fn run(eng: &mut Engine) {
    let thorough = eng.tier == Tier::Thorough;
    eng.max_shrink = Some(120);
    eng.assume("adversary = a server holding the VRF secret key and the tree, recombining real material; under AllowMissingValues an entry's value may be empty instead of the true one, under Default it may not");
    eng.assume("for trees with a missing / late stale marker: every history proof whose list contains the replacing version must be rejected");
    eng.prop_part(
        "forged_histories",
        "honest generated histories; at the last and up to 2 generated epochs, for the 3 labels with most versions and P in {Complete, MostRecent(1), MostRecent(total-1), MostRecent(total), MostRecent(total+2)}: honest proof + the forger's assembly (controls); newest-k truncations with future markers forged from 6 absence candidates (every anchor depth); oldest dropped; gaps; duplicates; swaps; reversal; altered/substituted values (with recomputed nonce), epochs, re-dated leaves, tombstones, shifted versions; omitted / surplus / swapped / root-forged marker proofs; missing or substituted stale proofs; every candidate under its own and another parameter and both verifier modes; then a dishonest epoch (no stale marker; marked 1 or 2 epochs late) built through the public API, where every proof covering the replacing version must be rejected; non-trivial = a truncation-with-forged-absence candidate or a dishonest tree was evaluated; distinct by case",
        eng.tier.pick(320, 6000),
        move || strategy(thorough),
        check,
    );
}
