//! C03 - key history returns a verifying, complete and correct account of a label's versions.
use crate::dirx::*;
use crate::engine::*;
use crate::gen::*;
use crate::model::*;
use crate::{both_cfgs, ensure};
use akd::storage::memory::AsyncInMemoryDatabase;
use akd::AkdLabel;
use proptest::prelude::*;
use serde::{Deserialize, Serialize};

#[derive(Serialize, Deserialize, Clone, Debug)]
pub struct Case {
    pub hist: Hist,
    pub cache: CacheKind,
    pub par: ParKind,
    pub extra_n: Vec<u16>,
    pub ro_cache: Option<CacheKind>,
}
#[derive(Default)]
pub struct Stats {
    pub histories: u64,
    pub lt: bool,
    pub gt: bool,
    pub max_versions: u64,
}

async fn run_cfg<TC: Tcfg>(case: &Case, st: &mut Stats) -> R {
    let db = AsyncInMemoryDatabase::new();
    let mut sys = Sys::<TC, _>::new(manager(db.clone(), case.cache), case.hist.key, case.par).await?;
    let (batches, _) = case.hist.resolve();
    let mut pool: Vec<Vec<u8>> = vec![];
    for l in &case.hist.labels {
        if !pool.contains(l) {
            pool.push(l.clone());
        }
    }
    for (i, b) in batches.iter().enumerate() {
        let changed = sys.publish(b, i).await?;
        if !changed && i % 3 != 0 {
            continue;
        }
        // very long histories: query only around the one-byte boundary and at the end
        if batches.len() > 100 && !(i + 1 == batches.len() || (253..=258).contains(&i) || i == 16 || i == 127) {
            continue;
        }
        let e = sys.m.epoch;
        let root = sys.m.roots[e as usize];
        let ro = match case.ro_cache {
            Some(ck) if e > 0 => Some(new_ro::<TC, _>(manager(db.clone(), ck), &sys.key, case.par).await?),
            _ => None,
        };
        // very large pools (wide histories): a rotating window of labels per epoch keeps the case affordable
        let window: Vec<Vec<u8>> = if pool.len() > 14 { (0..12).map(|k| pool[(i * 5 + k * 7) % pool.len()].clone()).collect() } else { pool.clone() };
        for l in &window {
            let total = sys.m.versions_at(l, e).len();
            if total == 0 {
                let r = sys.dir.key_history(&AkdLabel(l.clone()), HP::Complete.to()).await;
                ensure!(r.is_err(), "history-unpublished-ok", "epoch {e}: key_history of never-published label {} returned a proof", hex::encode(l));
                continue;
            }
            st.max_versions = st.max_versions.max(total as u64);
            let mut params = vec![HP::Complete, HP::MostRecent(1), HP::MostRecent(total), HP::MostRecent(total + 1)];
            if total > 1 {
                params.push(HP::MostRecent(total - 1));
            }
            for x in &case.extra_n {
                params.push(HP::MostRecent(1 + sel(*x, total + 3)));
            }
            for p in params {
                let exp = expected_history(&sys.m, l, e, p);
                for use_ro in [false, true] {
                    let res = if use_ro {
                        match &ro {
                            Some(ro) => ro.key_history(&AkdLabel(l.clone()), p.to()).await,
                            None => continue,
                        }
                    } else {
                        sys.dir.key_history(&AkdLabel(l.clone()), p.to()).await
                    };
                    st.histories += 1;
                    let (proof, eh) = res.map_err(|err| Fail { sig: "history-err".into(), msg: format!("epoch {e} label {} {p:?} ro={use_ro}: key_history failed: {err:?}", hex::encode(l)) })?;
                    check_eh(&eh, &sys.m, "key_history")?;
                    let got = verify_history::<TC>(&sys.pk, root, e, l, proof, p.to(), false);
                    ensure!(
                        got.as_ref().ok() == Some(&exp),
                        "history-result",
                        "epoch {e} label {} {p:?} ro={use_ro}: verification gave {:?}, model expects {:?}",
                        hex::encode(l),
                        got,
                        exp
                    );
                    if let HP::MostRecent(n) = p {
                        if total >= 3 && n < total {
                            st.lt = true;
                        }
                        if total >= 3 && n > total {
                            st.gt = true;
                        }
                    }
                }
            }
        }
    }
    Ok(())
}

pub fn check(case: &Case, ctx: &mut Ctx) -> R {
    let mut st = Stats::default();
    let r = (|| {
        both_cfgs!(run_cfg(case, &mut st));
        Ok(())
    })();
    ctx.count("history_proofs", st.histories);
    if st.max_versions >= 4 {
        ctx.class("label_with>=4_versions");
    }
    if st.max_versions >= 8 {
        ctx.class("label_with>=8_versions");
    }
    if st.lt && st.gt {
        ctx.nontrivial(fp(&case.hist));
        ctx.sample(case);
    }
    r
}

pub fn strategy(thorough: bool) -> impl Strategy<Value = Case> {
    let (max_e, max_ops) = if thorough { (14, 8) } else { (9, 6) };
    (
        mixed_hist_strategy(max_e, max_ops),
        prop_oneof![Just(CacheKind::None), Just(CacheKind::Default)],
        prop_oneof![Just(ParKind::Disabled), Just(ParKind::Default)],
        proptest::collection::vec(any::<u16>(), 0..2),
        prop_oneof![3 => Just(None), 1 => Just(Some(CacheKind::None)), 1 => Just(Some(CacheKind::Default))],
    )
        .prop_map(|(hist, cache, par, extra_n, ro_cache)| Case { hist, cache, par, extra_n, ro_cache })
}

pub fn run(eng: &mut Engine) {
    let thorough = eng.tier == Tier::Thorough;
    eng.assume("expected version lists and root hashes come from the independent model");
    eng.prop_part(
        "history",
        "generated histories; after every state-changing publish, for every published label: Complete and MostRecent(N) for N in {1,total-1,total,total+1,generated}, verified with the same parameter and compared with the model's newest-first list; non-trivial = a label with >=3 versions queried with N<total and N>total; distinct by history",
        eng.tier.pick(1000, 8_000),
        || strategy(thorough),
        check,
    );
    eng.prop_part(
        "very_deep",
        "one label driven through 258-300 versions; queries at epochs 17, 128, 254-259 and the last one (marker versions around the skip-list entry 256, version/epoch fields beyond one byte); same oracle; every case non-trivial",
        eng.tier.pick(6, 48),
        || (very_deep_hist_strategy(), prop_oneof![Just(CacheKind::None), Just(CacheKind::Default)]).prop_map(|(hist, cache)| Case { hist, cache, par: ParKind::Disabled, extra_n: vec![30000], ro_cache: Some(CacheKind::None) }),
        |c: &Case, ctx: &mut Ctx| {
            ctx.nontrivial(fp(&c.hist));
            check(c, ctx)
        },
    );
    crate::props::readfaults::add_part(eng, crate::props::readfaults::Kind::History);
}
