//! C01 - each epoch's root hash is determined by the publish history alone.
use crate::dirx::*;
use crate::engine::*;
use crate::gen::*;
use crate::model::*;
use crate::{both_cfgs, ensure};
use akd::storage::memory::AsyncInMemoryDatabase;
use proptest::prelude::*;
use serde::{Deserialize, Serialize};

#[derive(Serialize, Deserialize, Clone, Debug)]
pub struct Case {
    pub hist: Hist,
    pub cache: CacheKind,
    pub par: ParKind,
    /// publish calls issued from a spawned task instead of the root future
    #[serde(default)]
    pub spawned: bool,
}

async fn run_cfg<TC: Tcfg>(case: &Case) -> R {
    let key = key_bytes(case.hist.key);
    let mut m = Model::new(TC::CFG, &key);
    let db = AsyncInMemoryDatabase::new();
    let dir = new_dir::<TC, _>(manager(db, case.cache), &key, case.par).await?;
    let e0 = dir.get_epoch_hash().await.map_err(akd_err("epoch-hash-err", "get_epoch_hash on empty directory"))?;
    ensure!(e0.0 == 0 && e0.1 == m.roots[0], "empty-root", "empty directory reports ({}, {}), model root {}", e0.0, hex::encode(e0.1), hex::encode(m.roots[0]));
    let (batches, _) = case.hist.resolve();
    let mut effective = 0u64;
    for (i, b) in batches.iter().enumerate() {
        if publish_both_opt::<TC, _>(&dir, &mut m, b, i, case.spawned).await? {
            effective += 1;
        }
        ensure!(m.epoch == effective, "epoch-count", "step {i}: epoch {} != number of effective publishes {effective}", m.epoch);
    }
    Ok(())
}

pub fn check(case: &Case, ctx: &mut Ctx) -> R {
    let (_, info) = case.hist.resolve();
    if info.updates > 0 {
        ctx.class("has_update");
    }
    if info.noop_publishes > 0 {
        ctx.class("has_noop_publish");
    }
    if info.rejected > 0 {
        ctx.class("has_rejected_batch");
    }
    if info.skipped_resubmissions > 0 {
        ctx.class("has_skipped_resubmission");
    }
    if info.max_version >= 4 {
        ctx.class("version>=4");
    }
    if case.spawned {
        ctx.class("publish_from_spawned_task");
    }
    if case.hist.batches.iter().any(|b| b.ops.len() > 128) {
        ctx.class("batch_with>128_entries");
    }
    if case.hist.labels.iter().any(|l| l.is_empty()) {
        ctx.class("empty_label_in_pool");
    }
    if info.effective >= 2 && info.updates > 0 && info.skipped_resubmissions > 0 {
        ctx.nontrivial(fp(&case.hist));
        ctx.sample(case);
    }
    both_cfgs!(run_cfg(case));
    Ok(())
}

pub fn strategy(thorough: bool) -> impl Strategy<Value = Case> {
    let (max_e, max_ops) = if thorough { (30, 24) } else { (12, 8) };
    (
        mixed_hist_strategy(max_e, max_ops),
        prop_oneof![Just(CacheKind::None), Just(CacheKind::Default)],
        prop_oneof![Just(ParKind::Disabled), Just(ParKind::Default), Just(ParKind::Static(3))],
    )
        .prop_map(|(hist, cache, par)| Case { hist, cache, par, spawned: false })
        .prop_flat_map(|c| (Just(c), any::<bool>()))
        .prop_map(|(mut c, s)| {
            c.spawned = s;
            c
        })
}

pub fn run(eng: &mut Engine) {
    let thorough = eng.tier == Tier::Thorough;
    eng.assume("ECVRF core (prove + output truncation) is shared between model and implementation; all hashing, the VRF input and the trie are re-implemented independently on blake3");
    eng.assume("labels/values drawn from small per-case pools (empty, 1-byte, prefix-related, 300-2000 byte, random) so that updates, re-submissions and repeated labels are frequent");
    eng.prop_part(
        "history",
        "generated publish histories (1-12 / 1-30 batches) run against akd and the independent model under both configurations; non-trivial = >=2 effective epochs with an update AND a skipped re-submission, distinct by history",
        eng.tier.pick(4000, 100_000),
        || strategy(thorough),
        check,
    );
    eng.prop_part(
        "wide",
        "histories with batches of 60-150 labels (first batch all new, later batches update a third of them), publish calls issued from the root future or from a spawned task, sequential / parallel insertion; same oracle; every case non-trivial; distinct by history",
        eng.tier.pick(48, 600),
        || (wide_hist_strategy(), prop_oneof![Just(CacheKind::None), Just(CacheKind::Default)], prop_oneof![Just(ParKind::Disabled), Just(ParKind::Default)], any::<bool>()).prop_map(|(hist, cache, par, spawned)| Case { hist, cache, par, spawned }),
        |c: &Case, ctx: &mut Ctx| {
            ctx.nontrivial(fp(&c.hist));
            check(c, ctx)
        },
    );
    eng.prop_part(
        "very_deep",
        "one label driven through 258-300 versions (and as many epochs): version / epoch encodings beyond one byte; same oracle; non-trivial = every case; distinct by history",
        eng.tier.pick(16, 160),
        || (very_deep_hist_strategy(), prop_oneof![Just(CacheKind::None), Just(CacheKind::Default)], prop_oneof![Just(ParKind::Disabled), Just(ParKind::Default)]).prop_map(|(hist, cache, par)| Case { hist, cache, par, spawned: false }),
        |c: &Case, ctx: &mut Ctx| {
            ctx.nontrivial(fp(&c.hist));
            check(c, ctx)
        },
    );
}
