//! C12 - concurrent publishes take effect one after another.
use crate::dirx::*;
use crate::engine::*;
use crate::gen::*;
use crate::model::*;
use crate::sched::*;
use crate::vdb::*;
use crate::{ensure, props::c10::Mgr};
use akd::storage::types::DbRecord;
use akd::{AkdLabel, EpochHash};
use proptest::prelude::*;
use serde::{Deserialize, Serialize};
use std::sync::atomic::Ordering;

#[derive(Serialize, Deserialize, Clone, Debug)]
pub struct Case {
    pub cfg: Cfg,
    /// history: the first `init` batches are published sequentially, the remaining 2-3 concurrently
    pub hist: Hist,
    pub concurrent: u8,
    pub mgr: Mgr,
    /// generated random schedules
    pub schedules: Vec<Vec<u8>>,
    /// also enumerate bounded-preemption schedules (budget of double preemptions)
    pub enumerate: u32,
}
#[derive(Default)]
pub struct Stats {
    traces: std::collections::HashSet<u64>,
    schedules: u64,
    interleaved: u64,
    both_ok: u64,
    some_err: u64,
    max_steps: usize,
}

struct Scenario {
    key: Vec<u8>,
    pk: Vec<u8>,
    init_snapshot: Vec<DbRecord>,
    init_batches: Vec<Vec<Pair>>,
    conc: Vec<Vec<Pair>>,
    labels: Vec<Vec<u8>>,
}

fn model_after(c: Cfg, key: &[u8], init: &[Vec<Pair>]) -> Model {
    let mut m = Model::new(c, key);
    for b in init {
        let _ = m.publish(b);
    }
    m
}

/// is there an order of the successful calls whose sequential replay yields exactly the returned pairs?
fn linearizable(c: Cfg, sc: &Scenario, oks: &[(usize, (u64, D))]) -> Option<(Vec<usize>, Model)> {
    fn perms(n: usize) -> Vec<Vec<usize>> {
        if n == 0 {
            return vec![vec![]];
        }
        let mut out = vec![];
        for p in perms(n - 1) {
            for i in 0..=p.len() {
                let mut q = p.clone();
                q.insert(i, n - 1);
                out.push(q);
            }
        }
        out
    }
    for p in perms(oks.len()) {
        let mut m = model_after(c, &sc.key, &sc.init_batches);
        let mut good = true;
        for i in &p {
            let (actor, pair) = &oks[*i];
            match m.publish(&sc.conc[*actor]) {
                Ok(r) if r == *pair => {}
                _ => {
                    good = false;
                    break;
                }
            }
        }
        if good {
            return Some((p.iter().map(|i| oks[*i].0).collect(), m));
        }
    }
    None
}

async fn run_schedule<TC: Tcfg>(sc: &Scenario, mgr: Mgr, policy: &Policy, st: &mut Stats) -> R<usize> {
    let vdb = VDb::over(restore(&sc.init_snapshot).await);
    let stm = match mgr {
        Mgr::NoCache => manager(vdb.clone(), CacheKind::None),
        _ => manager(vdb.clone(), CacheKind::Default),
    };
    let dir = new_dir::<TC, _>(stm.clone(), &sc.key, ParKind::Disabled).await?;
    if mgr == Mgr::WarmCache {
        for l in &sc.labels {
            let _ = dir.lookup(AkdLabel(l.clone())).await;
        }
    }
    vdb.ctl.sched.store(true, Ordering::SeqCst);
    let actors: Vec<Actor<'_, Result<EpochHash, akd::errors::AkdError>>> = sc
        .conc
        .iter()
        .map(|b| {
            let d = dir.clone();
            let batch = to_batch(b);
            Box::pin(async move { d.publish(batch).await }) as Actor<'_, _>
        })
        .collect();
    let (outs, trace) = run_actors(actors, policy, 20_000).await;
    vdb.ctl.sched.store(false, Ordering::SeqCst);
    st.schedules += 1;
    st.max_steps = st.max_steps.max(trace.steps.len());
    let what = format!("schedule {} (actors per step: {:?})", crate::sched::show_policy(policy, trace.steps.len()), trace.steps);
    ensure!(!trace.deadlock, "sched-deadlock", "{what}: actors did not finish (deadlock or livelock)");
    if trace.preemptions > 0 {
        st.interleaved += 1;
        st.traces.insert(fp(&trace.steps));
    }
    let c = TC::CFG;
    let base = model_after(c, &sc.key, &sc.init_batches);
    let e0 = base.epoch;
    let mut oks = vec![];
    for (i, o) in outs.iter().enumerate() {
        match o {
            Some(Ok(eh)) => oks.push((i, (eh.0, eh.1))),
            Some(Err(_)) => {}
            None => return fail("sched-incomplete", format!("{what}: actor {i} has no result")),
        }
    }
    if oks.len() == sc.conc.len() {
        st.both_ok += 1;
    } else {
        st.some_err += 1;
    }
    let summary: Vec<String> = outs.iter().map(|o| match o { Some(Ok(eh)) => format!("Ok(epoch {}, {})", eh.0, hex::encode(&eh.1[..4])), Some(Err(e)) => format!("Err({})", format!("{e:?}").chars().take(60).collect::<String>()), None => "-".into() }).collect();
    let Some((order, m_final)) = linearizable(c, sc, &oks) else {
        return fail("publishes-not-serializable", format!("{what}: results {summary:?} (epoch before: {e0}) cannot be explained by applying the successful batches one after another"));
    };
    ensure!(!stm.is_transaction_active(), "tx-left-open", "{what}: a transaction is still open after all publishes returned");
    // the final state equals the sequential application (same instance and a fresh instance)
    let fresh = new_dir::<TC, _>(manager(VDb::over(vdb.inner.clone()), CacheKind::None), &sc.key, ParKind::Disabled).await?;
    for (name, d) in [("same instance", &dir), ("fresh instance", &fresh)] {
        let eh = d.get_epoch_hash().await.map_err(akd_err("final-epoch-hash-err", &what))?;
        ensure!(
            eh.0 == m_final.epoch && eh.1 == m_final.roots[m_final.epoch as usize],
            "final-state-mismatch",
            "{what}: results {summary:?} serialise as actors {order:?}, but {name} reports ({}, {}) instead of the model's ({}, {})",
            eh.0,
            hex::encode(&eh.1[..4]),
            m_final.epoch,
            hex::encode(&m_final.roots[m_final.epoch as usize][..4])
        );
        let e = m_final.epoch;
        for l in sc.labels.iter() {
            match expected_lookup(&m_final, l, e) {
                Some(exp) => {
                    let (p, _) = d.lookup(AkdLabel(l.clone())).await.map_err(|err| Fail { sig: "final-lookup-err".into(), msg: format!("{what}: results {summary:?}; {name}: lookup of {} failed: {err:?}", hex::encode(l)) })?;
                    let r = verify_lookup::<TC>(&sc.pk, m_final.roots[e as usize], e, l, p);
                    ensure!(r.as_ref().ok() == Some(&exp), "final-lookup-result", "{what}: results {summary:?}; {name}: lookup of {} verifies to {r:?}, expected {exp:?}", hex::encode(l));
                }
                None => ensure!(d.lookup(AkdLabel(l.clone())).await.is_err(), "failed-publish-left-trace", "{what}: {name}: label {} of a failed publish is visible", hex::encode(l)),
            }
        }
        if e > e0 {
            let ap = d.audit(e0, e).await.map_err(akd_err("final-audit-err", &what))?;
            akd::auditor::audit_verify::<TC>(m_final.roots[e0 as usize..=e as usize].to_vec(), ap)
                .await
                .map_err(|err| Fail { sig: "final-audit-verify".into(), msg: format!("{what}: results {summary:?}; {name}: audit({e0},{e}) does not verify against the returned hashes: {err:?}") })?;
        }
    }
    Ok(trace.steps.len())
}

async fn run_case<TC: Tcfg>(case: &Case, st: &mut Stats) -> R {
    let key = key_bytes(case.hist.key);
    let (batches, _) = case.hist.resolve();
    let nconc = (case.concurrent as usize).clamp(2, 3).min(batches.len());
    if nconc < 2 {
        return Ok(());
    }
    let (init, conc) = batches.split_at(batches.len() - nconc);
    // initial state
    let vdb0 = VDb::new();
    let mut m = Model::new(TC::CFG, &key);
    let d0 = new_dir::<TC, _>(manager(vdb0.clone(), CacheKind::None), &key, ParKind::Disabled).await?;
    for (i, b) in init.iter().enumerate() {
        publish_both::<TC, _>(&d0, &mut m, b, i).await?;
    }
    let mut labels = case.hist.labels.clone();
    labels.sort();
    labels.dedup();
    let sc = Scenario { pk: public_key(&key), key, init_snapshot: snapshot(&vdb0.inner).await, init_batches: init.to_vec(), conc: conc.to_vec(), labels };
    // baseline (non-preemptive) to learn the number of decision points
    let t = run_schedule::<TC>(&sc, case.mgr, &Policy::Preempt(vec![]), st).await? as u32;
    for s in &case.schedules {
        run_schedule::<TC>(&sc, case.mgr, &Policy::Bytes(s.clone()), st).await?;
    }
    if case.enumerate > 0 {
        let others = (nconc - 1) as u8;
        // all single preemptions
        for s in 0..t {
            for a in 0..others {
                run_schedule::<TC>(&sc, case.mgr, &Policy::Preempt(vec![(s, a)]), st).await?;
            }
        }
        // every other actor as the FIRST to run, combined with every single later preemption (one actor gets far ahead,
        // is then held at one storage operation while the others run to completion)
        for a0 in 0..others {
            let stride = if nconc >= 3 { 2 } else { 1 };
            for s in (1..t + 4).step_by(stride) {
                for a in 0..others {
                    run_schedule::<TC>(&sc, case.mgr, &Policy::Preempt(vec![(0, a0), (s, a)]), st).await?;
                }
            }
        }
        // double preemptions: deterministic stride through the (s1 < s2) space within the budget
        let total = (t as u64) * (t as u64 + 20) / 2;
        let stride = (total / case.enumerate as u64).max(1);
        let mut idx = 0u64;
        let mut k = 0u64;
        for s1 in 0..t {
            for s2 in s1 + 1..t + 20 {
                if idx % stride == 0 {
                    let a1 = (k % others as u64) as u8;
                    let a2 = ((k / others as u64) % others.max(1) as u64) as u8;
                    run_schedule::<TC>(&sc, case.mgr, &Policy::Preempt(vec![(s1, a1), (s2, a2)]), st).await?;
                    k += 1;
                }
                idx += 1;
            }
        }
    }
    Ok(())
}

pub fn check(case: &Case, ctx: &mut Ctx) -> R {
    let mut st = Stats::default();
    let r = block_on_paused(async {
        match case.cfg {
            Cfg::Wa => run_case::<Wa>(case, &mut st).await,
            Cfg::Exp => run_case::<Exp>(case, &mut st).await,
        }
    });
    ctx.count("schedules", st.schedules);
    ctx.count("schedules_with_preemption", st.interleaved);
    ctx.count("schedules_all_publishes_ok", st.both_ok);
    ctx.count("schedules_with_a_failed_publish", st.some_err);
    ctx.count("max_decision_points", st.max_steps as u64);
    ctx.class(&format!("{:?}", case.mgr));
    // every schedule is one execution; distinct non-trivial = distinct preempting interleavings (actor-per-step traces) of this scenario
    if ctx.counting {
        ctx.evals += st.schedules.saturating_sub(1);
    }
    let cfp = fp_json(&(&case.hist, case.concurrent, case.mgr, case.cfg));
    for t in &st.traces {
        ctx.nontrivial(fp(&(cfp, *t)));
    }
    if st.interleaved > 0 {
        ctx.sample(&serde_json::json!({"cfg": case.cfg, "hist": case.hist, "concurrent": case.concurrent, "mgr": case.mgr, "n_random_schedules": case.schedules.len(), "enumerate": case.enumerate}));
    }
    r
}

/// multi-thread stress: the same scenario with real threads (not replayable as a schedule)
async fn stress_case<TC: Tcfg>(case: &Case) -> R {
    let key = key_bytes(case.hist.key);
    let (batches, _) = case.hist.resolve();
    let nconc = (case.concurrent as usize).clamp(2, 3).min(batches.len());
    if nconc < 2 {
        return Ok(());
    }
    let (init, conc) = batches.split_at(batches.len() - nconc);
    let vdb = VDb::new();
    let stm = match case.mgr {
        Mgr::NoCache => manager(vdb.clone(), CacheKind::None),
        _ => manager(vdb.clone(), CacheKind::Default),
    };
    let mut m = Model::new(TC::CFG, &key);
    let dir = new_dir::<TC, _>(stm.clone(), &key, ParKind::Default).await?;
    for (i, b) in init.iter().enumerate() {
        publish_both::<TC, _>(&dir, &mut m, b, i).await?;
    }
    let mut labels = case.hist.labels.clone();
    labels.sort();
    labels.dedup();
    let sc = Scenario { pk: public_key(&key), key: key.clone(), init_snapshot: vec![], init_batches: init.to_vec(), conc: conc.to_vec(), labels };
    let mut handles = vec![];
    for b in conc {
        let d = dir.clone();
        let batch = to_batch(b);
        handles.push(tokio::spawn(async move { d.publish(batch).await }));
    }
    let mut oks = vec![];
    let mut summary = vec![];
    for (i, h) in handles.into_iter().enumerate() {
        match h.await {
            Ok(Ok(eh)) => {
                summary.push(format!("Ok(epoch {})", eh.0));
                oks.push((i, (eh.0, eh.1)));
            }
            Ok(Err(e)) => summary.push(format!("Err({})", format!("{e:?}").chars().take(50).collect::<String>())),
            Err(e) => return fail("panic", format!("publish task panicked: {e}")),
        }
    }
    let Some((order, m_final)) = linearizable(TC::CFG, &sc, &oks) else {
        return fail("publishes-not-serializable", format!("multi-thread run: results {summary:?} (epoch before: {}) cannot be explained by applying the successful batches one after another", m.epoch));
    };
    ensure!(!stm.is_transaction_active(), "tx-left-open", "multi-thread run: a transaction is still open");
    let eh = dir.get_epoch_hash().await.map_err(akd_err("final-epoch-hash-err", "stress"))?;
    ensure!(eh.0 == m_final.epoch && eh.1 == m_final.roots[m_final.epoch as usize], "final-state-mismatch", "multi-thread run: results {summary:?} serialise as {order:?} but the directory reports epoch {}", eh.0);
    Ok(())
}

pub fn stress_check(case: &Case, ctx: &mut Ctx) -> R {
    thread_local! {
        static MT: tokio::runtime::Runtime = tokio::runtime::Builder::new_multi_thread().worker_threads(3).enable_time().build().unwrap();
    }
    ctx.nontrivial(fp_json(&(&case.hist, case.concurrent, case.mgr, case.cfg)));
    MT.with(|rt| {
        rt.block_on(async {
            match case.cfg {
                Cfg::Wa => stress_case::<Wa>(case).await,
                Cfg::Exp => stress_case::<Exp>(case).await,
            }
        })
    })
}

pub fn schedule_strategy(max_len: usize) -> impl Strategy<Value = Vec<u8>> {
    proptest::collection::vec(prop_oneof![5 => Just(0u8), 2 => 1u8..3], 0..max_len)
}

pub fn strategy(thorough: bool) -> impl Strategy<Value = Case> {
    (
        prop_oneof![Just(Cfg::Wa), Just(Cfg::Exp)],
        hist_strategy(2, 5, 4, 6),
        2u8..=3,
        prop_oneof![Just(Mgr::NoCache), Just(Mgr::ColdCache), Just(Mgr::WarmCache)],
        proptest::collection::vec(schedule_strategy(400), if thorough { 60 } else { 24 }),
        Just(if thorough { 3000u32 } else { 300 }),
    )
        .prop_map(|(cfg, hist, concurrent, mgr, schedules, enumerate)| Case { cfg, hist, concurrent, mgr, schedules, enumerate })
}

pub fn run(eng: &mut Engine) {
    let thorough = eng.tier == Tier::Thorough;
    eng.max_shrink = Some(60);
    eng.assume("interleavings at storage-operation granularity (a yield point before and after every database operation); tree insertion parallelism disabled so that all storage operations of a publish happen in the polled future");
    eng.assume("all publishes are issued on clones of one Directory (sharing its storage manager), cached and uncached");
    eng.prop_part(
        "schedules",
        "generated scenarios: 0-3 sequential publishes then 2-3 concurrent publish calls (overlapping / disjoint labels, no-ops, rejected batches) on clones of one directory; per scenario the non-preemptive schedule, ALL single preemptions, every choice of first actor combined with every (every second, for 3 actors) later single preemption, a strided sample of other double preemptions and generated random schedules; oracle: some sequential order of the successful calls reproduces every returned (epoch, root) on the model, final state (same + fresh instance), lookups and audit(e0, final) agree with it, failed calls leave no trace, no transaction left open; evaluations = schedules executed; non-trivial = schedule with at least one preemption, distinct by (scenario, actor-per-step trace)",
        eng.tier.pick(48, 360),
        move || strategy(thorough),
        check,
    );
    eng.prop_part(
        "thread_stress",
        "the same scenario generator with the concurrent publishes spawned on a 3-worker multi-thread runtime (default insertion parallelism); oracle on the returned values and the final state only; not replayable as a schedule (a failure here must be reproduced by the schedule part before it counts); every case counts as non-trivial",
        eng.tier.pick(300, 6000),
        move || strategy(false).prop_map(|mut c| {
            c.schedules.clear();
            c.enumerate = 0;
            c
        }),
        stress_check,
    );
}
