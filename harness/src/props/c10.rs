//! C10 - a publish that returns an error leaves the directory exactly as it was.
use crate::dirx::*;
use crate::engine::*;
use crate::gen::*;
use crate::model::*;
use crate::vdb::*;
use crate::{both_cfgs, ensure};
use akd::storage::memory::AsyncInMemoryDatabase;
use akd::storage::types::DbRecord;
use akd::storage::StorageManager;
use akd::AkdLabel;
use proptest::prelude::*;
use serde::{Deserialize, Serialize};

#[derive(Serialize, Deserialize, Clone, Copy, Debug, PartialEq, Eq)]
pub enum Mgr {
    NoCache,
    ColdCache,
    WarmCache,
}
#[derive(Serialize, Deserialize, Clone, Debug)]
pub struct Case {
    /// the last batch is the targeted publish (made effective if it is not)
    pub hist: Hist,
    pub mgr: Mgr,
    pub par: ParKind,
    /// only for replay / shrinking: restrict to one fault position
    pub only_k: Option<u64>,
    /// p > 0: every p-th storage gate yields, so that the spawned insertion / preload tasks interleave with their parent
    #[serde(default)]
    pub yields: u8,
}
#[derive(Default)]
pub struct Stats {
    nontrivial: Vec<(u64, bool, u8)>,
    k_total: u64,
    faults: u64,
    after_begin: u64,
    commit_faults: u64,
    not_reached: u64,
}

struct Inst<TC: Tcfg> {
    vdb: VDb,
    st: StorageManager<VDb>,
    dir: Dir<TC, VDb>,
}

async fn instance<TC: Tcfg>(mgr: Mgr, par: ParKind, yields: u8, key: &[u8], s_a: &[DbRecord], s_b: &[DbRecord], last_prefix: Option<&Vec<Pair>>) -> R<Inst<TC>> {
    let (base, warm) = match (mgr, last_prefix) {
        (Mgr::WarmCache, Some(_)) => (s_a, true),
        _ => (s_b, false),
    };
    let vdb = VDb::over(restore(base).await);
    let st = match mgr {
        Mgr::NoCache => manager(vdb.clone(), CacheKind::None),
        _ => manager(vdb.clone(), CacheKind::Default),
    };
    let dir = new_dir::<TC, _>(st.clone(), key, par).await?;
    if warm {
        // (the last prefix batch may itself be a rejected or no-op publish; then nothing is warmed)
        let _ = dir.publish(to_batch(last_prefix.unwrap())).await;
    }
    vdb.ctl.yield_every.store(yields as u64, std::sync::atomic::Ordering::SeqCst);
    Ok(Inst { vdb, st, dir })
}

async fn quiesce(vdb: &VDb) {
    // let spawned tasks (if any were left behind) run to completion on this current_thread runtime
    let mut stable = 0;
    let mut last = vdb.op_count();
    for _ in 0..2000 {
        tokio::task::yield_now().await;
        let now = vdb.op_count();
        if now == last {
            stable += 1;
            if stable >= 50 {
                break;
            }
        } else {
            stable = 0;
            last = now;
        }
    }
}

async fn serves_state<TC: Tcfg, S: akd::storage::Database + 'static>(dir: &Dir<TC, S>, m: &Model, pk: &[u8], labels: &[Vec<u8>], rot: usize, what: &str) -> R {
    let e = m.epoch;
    let root = m.roots[e as usize];
    let eh = dir.get_epoch_hash().await.map_err(akd_err("after-epoch-hash-err", what))?;
    ensure!(eh.0 == e && eh.1 == root, "after-epoch-hash", "{what}: get_epoch_hash reports ({}, {}), expected epoch {e} with the model's root", eh.0, hex::encode(eh.1));
    if labels.is_empty() {
        return Ok(());
    }
    for j in 0..2usize.min(labels.len()) {
        let l = &labels[(rot + j) % labels.len()];
        match expected_lookup(m, l, e) {
            Some(exp) => {
                let (p, leh) = dir.lookup(AkdLabel(l.clone())).await.map_err(akd_err("after-lookup-err", what))?;
                ensure!(leh.0 == e && leh.1 == root, "after-lookup-epoch", "{what}: lookup names epoch {} instead of {e}", leh.0);
                let r = verify_lookup::<TC>(pk, root, e, l, p);
                ensure!(r.as_ref().ok() == Some(&exp), "after-lookup-result", "{what}: lookup of {} verifies to {r:?}, expected {exp:?}", hex::encode(l));
                let (hp, _) = dir.key_history(&AkdLabel(l.clone()), HP::Complete.to()).await.map_err(akd_err("after-history-err", what))?;
                let hr = verify_history::<TC>(pk, root, e, l, hp, HP::Complete.to(), false);
                ensure!(hr.as_ref().ok() == Some(&expected_history(m, l, e, HP::Complete)), "after-history-result", "{what}: history of {} verifies to {hr:?}", hex::encode(l));
            }
            None => ensure!(dir.lookup(AkdLabel(l.clone())).await.is_err(), "after-lookup-unpublished", "{what}: label {} of the failed publish is visible", hex::encode(l)),
        }
    }
    if e >= 1 {
        let ap = dir.audit(e - 1, e).await.map_err(akd_err("after-audit-err", what))?;
        akd::auditor::audit_verify::<TC>(vec![m.roots[e as usize - 1], root], ap).await.map_err(akd_err("after-audit-verify", what))?;
    }
    Ok(())
}

async fn run_cfg<TC: Tcfg>(case: &Case, st: &mut Stats) -> R {
    let key = key_bytes(case.hist.key);
    let pk = public_key(&key);
    let (mut batches, _) = case.hist.resolve();
    let mut target = batches.pop().unwrap_or_default();
    // the target must be a valid, state-changing publish
    let mut seen = std::collections::HashSet::new();
    target.retain(|(l, _)| seen.insert(l.clone()));
    target.push((b"c10-target-label".to_vec(), format!("v{}", batches.len()).into_bytes()));
    // prefix on a plain database, snapshots before and after its last publish
    let mut m = Model::new(TC::CFG, &key);
    let db0 = AsyncInMemoryDatabase::new();
    let d0 = new_dir::<TC, _>(manager(db0.clone(), CacheKind::None), &key, ParKind::Disabled).await?;
    let mut s_a = snapshot(&db0).await;
    for (i, b) in batches.iter().enumerate() {
        if i + 1 == batches.len() {
            s_a = snapshot(&db0).await;
        }
        publish_both::<TC, _>(&d0, &mut m, b, i).await?;
    }
    let s_b = snapshot(&db0).await;
    if batches.is_empty() {
        s_a = s_b.clone();
    }
    let last_prefix = batches.last();
    let mut labels: Vec<Vec<u8>> = case.hist.labels.clone();
    labels.push(b"c10-target-label".to_vec());
    labels.sort();
    labels.dedup();
    // expected state after the target publish
    let mut m_next = Model::new(TC::CFG, &key);
    for b in batches.iter() {
        let _ = m_next.publish(b);
    }
    let exp_next = m_next.publish(&target).map_err(|_| Fail { sig: "harness".into(), msg: "target batch invalid".into() })?;
    ensure!(exp_next.0 == m.epoch + 1, "harness", "target publish is not state-changing");
    let followup: Vec<Pair> = vec![(b"c10-followup-label".to_vec(), b"f".to_vec()), (target[0].0.clone(), b"c10-followup-value".to_vec())];
    let mut m_follow = Model::new(TC::CFG, &key);
    for b in batches.iter() {
        let _ = m_follow.publish(b);
    }
    let _ = m_follow.publish(&target);
    let exp_follow = m_follow.publish(&followup).map_err(|_| Fail { sig: "harness".into(), msg: "follow-up batch invalid".into() })?;
    // alternative order: the follow-up batch first (the failed call never made), then the target
    let mut m_alt = Model::new(TC::CFG, &key);
    for b in batches.iter() {
        let _ = m_alt.publish(b);
    }
    let exp_alt1 = m_alt.publish(&followup).map_err(|_| Fail { sig: "harness".into(), msg: "follow-up batch invalid".into() })?;
    let mut m_alt_after = Model::new(TC::CFG, &key);
    for b in batches.iter() {
        let _ = m_alt_after.publish(b);
    }
    let _ = m_alt_after.publish(&followup);
    let exp_alt2 = m_alt_after.publish(&target).map_err(|_| Fail { sig: "harness".into(), msg: "target batch invalid after follow-up".into() })?;
    // fault-free run: K
    let inst = instance::<TC>(case.mgr, case.par, case.yields, &key, &s_a, &s_b, last_prefix).await?;
    let pre = snapshot(&inst.vdb.inner).await;
    ensure!(pre == s_b, "harness-prefix-nondeterministic", "re-executed prefix gives a different database");
    inst.vdb.reset_ops();
    inst.vdb.ctl.logging.store(true, std::sync::atomic::Ordering::SeqCst);
    let eh = inst.dir.publish(to_batch(&target)).await.map_err(akd_err("publish-err", "fault-free target publish"))?;
    ensure!((eh.0, eh.1) == exp_next, "publish-root", "fault-free target publish returned a pair different from the model");
    quiesce(&inst.vdb).await;
    let k_total = inst.vdb.op_count();
    let kinds = inst.vdb.ctl.log.lock().unwrap().clone();
    st.k_total += k_total;
    drop(inst);
    for k in 0..k_total {
        if let Some(only) = case.only_k {
            if only != k {
                continue;
            }
        }
        for outage in [false, true] {
            let inst = instance::<TC>(case.mgr, case.par, case.yields, &key, &s_a, &s_b, last_prefix).await?;
            inst.vdb.reset_ops();
            inst.vdb.set_fault(Some(k), outage);
            let r = inst.dir.publish(to_batch(&target)).await;
            let hit = inst.vdb.ctl.faults_hit.load(std::sync::atomic::Ordering::SeqCst);
            // the database recovers when the call has returned
            inst.vdb.set_fault(None, false);
            let what = format!("fault at storage operation {k}/{k_total} ({:?}{}), manager {:?}, parallelism {:?}", kinds.get(k as usize), if outage { ", outage" } else { "" }, case.mgr, case.par) + &(if case.yields > 0 { format!(", storage yields every {} gates", case.yields) } else { String::new() });
            if hit == 0 {
                st.not_reached += 1;
                ensure!(r.is_ok(), "publish-err", "{what}: the fault position was never reached but publish failed: {:?}", r.err());
                continue;
            }
            st.faults += 1;
            let commit_pos = kinds.iter().position(|x| *x == OpKind::BatchSetCommit).unwrap_or(usize::MAX);
            if (k as usize) < commit_pos && kinds.get(k as usize).map(|x| matches!(x, OpKind::Get | OpKind::BatchGet)).unwrap_or(false) {
                st.after_begin += 1;
                st.nontrivial.push((k, outage, TC::CFG as u8));
            }
            if k as usize == commit_pos {
                st.commit_faults += 1;
                st.nontrivial.push((k, outage, TC::CFG as u8));
            }
            ensure!(r.is_err(), "publish-ok-despite-fault", "{what}: publish returned Ok({:?}) although the storage layer failed", r.as_ref().ok().map(|e| e.0));
            quiesce(&inst.vdb).await;
            ensure!(!inst.st.is_transaction_active(), "tx-left-open", "{what}: a transaction is still open after the failed publish");
            // the same instance serves the previous state, and only it
            serves_state::<TC, _>(&inst.dir, &m, &pk, &labels, k as usize, &format!("{what}; same instance after the failed publish")).await?;
            // the database is exactly as before
            let now = snapshot(&inst.vdb.inner).await;
            if now != s_b {
                let changed = now.iter().filter(|r| !s_b.contains(r)).count();
                return fail("db-changed-after-failed-publish", format!("{what}: the database differs from its pre-publish state ({} records, {} new/changed)", now.len(), changed));
            }
            // a fresh instance agrees
            let fresh = new_dir::<TC, _>(manager(inst.vdb.inner.clone(), CacheKind::None), &key, ParKind::Disabled).await?;
            serves_state::<TC, _>(&fresh, &m, &pk, &labels, k as usize + 1, &format!("{what}; fresh instance")).await?;
            if (k + outage as u64) % 2 == 1 {
                // a DIFFERENT publish straight after the failure (no retry first): nothing of the failed call may leak into it
                let eh = inst.dir.publish(to_batch(&followup)).await.map_err(|e| Fail { sig: "followup-failed".into(), msg: format!("{what}: a different publish right after the failed one failed: {e:?}") })?;
                ensure!((eh.0, eh.1) == exp_alt1, "failed-publish-leaks-into-next", "{what}: a different publish right after the failed one returned ({}, {}), but the model (failed call never made) expects ({}, {})", eh.0, hex::encode(&eh.1[..6]), exp_alt1.0, hex::encode(&exp_alt1.1[..6]));
                serves_state::<TC, _>(&inst.dir, &m_alt, &pk, &labels, k as usize, &format!("{what}; after a different publish following the failure")).await?;
                let eh = inst.dir.publish(to_batch(&target)).await.map_err(|e| Fail { sig: "retry-failed".into(), msg: format!("{what}: the originally failed publish, repeated after another publish, failed: {e:?}") })?;
                ensure!((eh.0, eh.1) == exp_alt2, "retry-result", "{what}: failed publish repeated after a different one returned ({}, {}), expected ({}, {})", eh.0, hex::encode(&eh.1[..6]), exp_alt2.0, hex::encode(&exp_alt2.1[..6]));
                continue;
            }
            // retry succeeds and ends where the fault-free run ends
            let eh = inst.dir.publish(to_batch(&target)).await.map_err(|e| Fail { sig: "retry-failed".into(), msg: format!("{what}: retry of the same publish failed: {e:?}") })?;
            ensure!((eh.0, eh.1) == exp_next, "retry-result", "{what}: retry returned ({}, {}), expected ({}, {})", eh.0, hex::encode(eh.1), exp_next.0, hex::encode(exp_next.1));
            serves_state::<TC, _>(&inst.dir, &m_next, &pk, &labels, k as usize, &format!("{what}; after the successful retry")).await?;
            // ... and a further, different publish ends where it would have ended had the failed call never been made
            if k % 3 == 0 {
                let eh = inst.dir.publish(to_batch(&followup)).await.map_err(|e| Fail { sig: "followup-failed".into(), msg: format!("{what}: a further publish after the retry failed: {e:?}") })?;
                ensure!((eh.0, eh.1) == exp_follow, "followup-result", "{what}: a further publish after failure+retry returned ({}, {}), the model expects ({}, {})", eh.0, hex::encode(&eh.1[..6]), exp_follow.0, hex::encode(&exp_follow.1[..6]));
            }
        }
    }
    Ok(())
}

pub fn check(case: &Case, ctx: &mut Ctx) -> R {
    let mut st = Stats::default();
    let r = (|| {
        both_cfgs!(run_cfg(case, &mut st));
        Ok(())
    })();
    ctx.count("storage_operations_of_target_publishes", st.k_total);
    ctx.count("fault_runs", st.faults);
    ctx.count("fault_positions_not_reached", st.not_reached);
    ctx.count("faults_in_reads_after_begin_transaction", st.after_begin);
    ctx.count("faults_in_commit_write", st.commit_faults);
    ctx.class(&format!("{:?}/{:?}", case.mgr, case.par));
    if case.yields > 0 && case.par != ParKind::Disabled {
        ctx.class("spawned_tasks_interleaved(yielding_storage)");
    }
    // every injected fault is one execution; distinct non-trivial = distinct (case, configuration, fault position, fault kind)
    // with the fault in a read after begin_transaction or in the commit write
    if ctx.counting {
        ctx.evals += st.faults.saturating_sub(1);
    }
    let cfp = fp_json(case);
    for x in &st.nontrivial {
        ctx.nontrivial(fp(&(cfp, x)));
    }
    if st.after_begin + st.commit_faults > 0 {
        ctx.sample(case);
    }
    r
}

pub fn strategy(thorough: bool) -> impl Strategy<Value = Case> {
    let max_e = if thorough { 6 } else { 4 };
    let big = (proptest::collection::vec(crate::gen::label_strategy(), 12..40), 0usize..3).prop_map(|(labels, pre)| {
        // a large target batch (K of 50-150 storage operations on an uncached manager)
        let n = labels.len() as u32;
        let all: Vec<Op> = (0..n).map(|i| Op::Set(((i * 65536 + 32768) / n) as u16, (i * 7919) as u16)).collect();
        let mut batches: Vec<Batch> = (0..pre).map(|j| Batch { ops: all.iter().skip(j).step_by(2).cloned().collect(), dup: false }).collect();
        batches.push(Batch { ops: all.iter().map(|o| if let Op::Set(l, _) = o { Op::Bump(*l) } else { o.clone() }).collect(), dup: false });
        Hist { key: 0, labels, values: vec![b"a".to_vec(), b"b".to_vec(), vec![]], batches }
    });
    (
        prop_oneof![4 => hist_strategy(1, max_e, if thorough { 10 } else { 6 }, 8), 1 => big],
        prop_oneof![Just(Mgr::NoCache), Just(Mgr::ColdCache), Just(Mgr::WarmCache)],
        prop_oneof![Just(ParKind::Disabled), Just(ParKind::Default), Just(ParKind::Static(2))],
        prop_oneof![2 => Just(0u8), 2 => Just(1u8), 1 => 2u8..6],
    )
        .prop_map(|(hist, mgr, par, yields)| Case { hist, mgr, par, only_k: None, yields })
}

pub fn run(eng: &mut Engine) {
    let thorough = eng.tier == Tier::Thorough;
    eng.level = "fault_enumeration".into();
    eng.max_shrink = Some(40);
    eng.assume("injected failures are StorageError::Connection (never NotFound, which akd interprets as 'absent'); a failing batch write writes nothing");
    eng.assume("the database recovers as soon as the failed call has returned; spawned insertion tasks are given time to finish (quiescence) before the database is inspected");
    eng.prop_part(
        "faults",
        "generated short histories (prefix of 0-3/0-5 publishes + a state-changing target publish), manager in {no cache, cold cache, cache warmed by the previous publish}, insertion/preload parallelism in {disabled, default, static 2}, storage operations that return at once or yield to the runtime (every / every p-th gate) so that spawned insertion tasks really interleave with their parent; the target publish's storage operation count K is measured, then EVERY k<K is failed (single fault and outage-until-return) on a freshly restored copy; oracle: Err returned, no transaction open, same instance and a fresh instance serve the model's previous state, database snapshot unchanged, retry reaches the model's next state; evaluations = fault runs; non-trivial = fault in a read after begin_transaction or in the commit write, distinct by (case, configuration, fault position, single/outage)",
        eng.tier.pick(400, 6000),
        move || strategy(thorough),
        check,
    );
}
