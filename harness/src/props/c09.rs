//! C09 - an accepted audit proof implies nothing committed earlier was removed or altered.
use crate::dirx::*;
use crate::engine::*;
use crate::model::*;
use crate::props::c05::{arr32, flip, LeafSet};
use crate::prover::*;
use crate::{both_cfgs, ensure};
use akd::append_only_zks::InsertMode;
use akd::auditor::{audit_verify, verify_consecutive_append_only};
use akd::storage::memory::AsyncInMemoryDatabase;
use akd::storage::StorageManager;
use akd::{AppendOnlyProof, Azks, AzksElement, AzksValue, NodeLabel, SingleAppendOnlyProof};
use proptest::prelude::*;
use serde::{Deserialize, Serialize};
use std::collections::{BTreeMap, HashMap};

type Leaves = BTreeMap<[u8; 32], (D, u64)>;

#[derive(Serialize, Deserialize, Clone, Debug)]
pub struct Case {
    /// S1: leaves of the start tree (epochs 1..=e)
    pub set: LeafSet,
    /// new leaves inserted at e+1 (derived from members / random)
    pub new_flips: Vec<(u16, u16)>,
    #[serde(with = "crate::gen::hexvecs")]
    pub new_rand: Vec<Vec<u8>>,
    /// selectors driving the adversarial choices
    pub picks: Vec<u16>,
}

async fn build<TC: Tcfg>(leaves: &Leaves, n_epochs: u64) -> R<(StorageManager<AsyncInMemoryDatabase>, Azks)> {
    crate::props::c05::build_tree::<TC>(leaves, n_epochs).await
}

/// The auditor's reconstruction, repeated on an ordinary database so that it can be walked.
async fn reconstruct<TC: Tcfg>(nodes: Vec<AzksElement>, latest_epoch: Option<u64>) -> Result<(StorageManager<AsyncInMemoryDatabase>, Azks, D), String> {
    let st = StorageManager::new_no_cache(AsyncInMemoryDatabase::new());
    let mut azks = Azks::new::<TC, _>(&st).await.map_err(|e| format!("{e:?}"))?;
    if let Some(e) = latest_epoch {
        azks.latest_epoch = e;
    }
    azks.batch_insert_nodes::<TC, _>(&st, nodes, InsertMode::Auditor, ParKind::Default.cfg()).await.map_err(|e| format!("{e:?}"))?;
    let h = azks.get_root_hash::<TC, _>(&st).await.map_err(|e| format!("{e:?}"))?;
    Ok((st, azks, h))
}

/// all nodes reachable from the root of a reconstructed tree: (len, val, stored hash); also
/// recomputes every interior hash with the model's formulas and reports consistency.
async fn walk<TC: Tcfg>(st: &StorageManager<AsyncInMemoryDatabase>, epoch: u64) -> (Vec<(u32, [u8; 32], D)>, bool, D) {
    let tree = Tree { st, epoch };
    let c = TC::CFG;
    let mut out = vec![];
    let mut consistent = true;
    // iterative post-order
    let root = tree.root().await;
    let mut stack = vec![(root.clone(), false)];
    let mut computed: HashMap<(u32, [u8; 32]), D> = HashMap::new();
    while let Some((n, visited)) = stack.pop() {
        let kids = [n.left_child, n.right_child];
        let is_root = n.label.label_len == 0 && n.label.label_val == [0u8; 32];
        if kids[0].is_none() && kids[1].is_none() && !is_root {
            computed.insert((n.label.label_len, n.label.label_val), n.hash.0);
            out.push((n.label.label_len, n.label.label_val, n.hash.0));
            continue;
        }
        if !visited {
            stack.push((n.clone(), true));
            for k in kids.into_iter().flatten() {
                if let Some(ch) = tree.node(k).await {
                    stack.push((ch, false));
                } else {
                    consistent = false;
                }
            }
            continue;
        }
        let side = |k: Option<NodeLabel>| -> (Vec<u8>, D) {
            match k {
                Some(l) => (label_value(c, l.label_len, &l.label_val), computed.get(&(l.label_len, l.label_val)).copied().unwrap_or([0xEE; 32])),
                None => {
                    let (l, v) = empty_label(c);
                    (label_value(c, l, &v), empty_node_hash(c))
                }
            }
        };
        let (ll, lh) = side(kids[0]);
        let (rl, rh) = side(kids[1]);
        let hsh = if kids[0].is_none() && kids[1].is_none() { empty_root_value(c) } else { parent(c, &lh, &ll, &rh, &rl) };
        if hsh != n.hash.0 {
            consistent = false;
        }
        computed.insert((n.label.label_len, n.label.label_val), hsh);
        out.push((n.label.label_len, n.label.label_val, n.hash.0));
    }
    let rh = root_hash(c, &root.hash.0);
    (out, consistent, rh)
}

fn label_bits(l: &NodeLabel) -> Vec<bool> {
    (0..l.label_len.min(256)).map(|i| bit(&l.label_val, i)).collect()
}
/// unchanged ∪ inserted prefix-free as bit strings (duplicates count as a violation)?
fn prefix_free(p: &SingleAppendOnlyProof) -> bool {
    let mut v: Vec<Vec<bool>> = p.unchanged_nodes.iter().chain(p.inserted.iter()).map(|e| label_bits(&e.label)).collect();
    v.sort();
    v.windows(2).all(|w| !(w[0].len() <= w[1].len() && w[0][..] == w[1][..w[0].len()]))
}

struct World<'a> {
    c: Cfg,
    s1: &'a Leaves,
    /// known node (len,val,parent-view hash) -> index of the tree it belongs to
    known: HashMap<(u32, [u8; 32], D), Vec<usize>>,
    trees: Vec<&'a Leaves>,
}
impl<'a> World<'a> {
    fn new(c: Cfg, s1: &'a Leaves, others: Vec<&'a Leaves>) -> Self {
        let mut trees = vec![s1];
        trees.extend(others);
        let mut known: HashMap<(u32, [u8; 32], D), Vec<usize>> = HashMap::new();
        for (i, t) in trees.iter().enumerate() {
            for n in true_nodes(&model_tree(c, t)) {
                known.entry(n).or_default().push(i);
            }
        }
        World { c, s1, known, trees }
    }
    /// Is every leaf of S1 (label, commitment, epoch) still committed by the walked end structure?
    fn lost_leaves(&self, reachable: &[(u32, [u8; 32], D)]) -> Vec<[u8; 32]> {
        // reachable nodes that are identical to a node of a known tree
        let anchors: Vec<(&(u32, [u8; 32], D), &Vec<usize>)> = reachable.iter().filter_map(|n| self.known.get_key_value(n)).collect();
        let mut lost = vec![];
        for (x, (cm, ep)) in self.s1.iter() {
            let lh = leaf_with_epoch(self.c, cm, *ep);
            let ok = anchors.iter().any(|((len, val, _), ts)| {
                (0..*len).all(|i| bit(val, i) == bit(x, i)) && ts.iter().any(|t| self.trees[*t].get(x).map(|(c2, e2)| leaf_with_epoch(self.c, c2, *e2) == lh).unwrap_or(false))
            });
            if !ok {
                lost.push(*x);
            }
        }
        lost
    }
}

#[derive(Default)]
pub struct Stats {
    pub candidates: u64,
    pub accepted: u64,
    pub shadow_own_hash: u64,
    pub nonprefixfree: u64,
    pub multi: u64,
}

/// decide one candidate single-step proof against (start hash, chosen end hash)
async fn judge<TC: Tcfg>(w: &World<'_>, what: &str, proof: &SingleAppendOnlyProof, h_start: D, end_choices: &[(&str, D)], end_epoch: u64, st: &mut Stats) -> R {
    // the strongest end hash: whatever the auditor's own reconstruction yields
    let mut nodes = proof.unchanged_nodes.clone();
    nodes.extend(proof.inserted.iter().map(|x| AzksElement { label: x.label, value: AzksValue(TC::hash_leaf_with_commitment(x.value, end_epoch).0) }));
    let own = reconstruct::<TC>(nodes, Some(end_epoch - 1)).await.ok();
    let mut choices: Vec<(String, D)> = end_choices.iter().map(|(n, h)| (n.to_string(), *h)).collect();
    if let Some((_, _, h)) = &own {
        choices.push(("auditor's own reconstruction".into(), *h));
    }
    let pf = prefix_free(proof);
    if !pf {
        st.nonprefixfree += 1;
    }
    for (name, h_end) in choices {
        st.candidates += 1;
        let accepted = verify_consecutive_append_only::<TC>(proof, h_start, h_end, end_epoch).await.is_ok();
        if !accepted {
            continue;
        }
        st.accepted += 1;
        // survival analysis on the structure committed by h_end
        let Some((rst, razks, rh)) = &own else {
            return fail("audit-accept-unreconstructible", format!("{what}: accepted but the reconstruction failed in the harness"));
        };
        if *rh != h_end {
            // accepted with an end hash the reconstruction does not produce: impossible unless the verifier is broken
            return fail("audit-accept-wrong-end", format!("{what} [end hash = {name}]: accepted with an end hash different from the auditor's reconstruction"));
        }
        let (reach, consistent, walked_root) = walk::<TC>(rst, razks.latest_epoch).await;
        ensure!(consistent && walked_root == *rh, "audit-reconstruction-inconsistent", "{what}: reconstructed end tree is internally inconsistent (stored hashes do not follow from reachable children)");
        let lost = w.lost_leaves(&reach);
        ensure!(
            lost.is_empty(),
            "audit-accepts-loss",
            "{what} [end hash = {name}]: accepted, but {} leaf/leaves committed by the start hash are no longer committed unchanged by the end hash, e.g. {}",
            lost.len(),
            hex::encode(lost[0])
        );
        ensure!(pf, "audit-accepts-overlap", "{what} [end hash = {name}]: accepted although unchanged ∪ inserted is not prefix-free (shadowing / duplicate / overlapping nodes)");
    }
    Ok(())
}

async fn run_cfg<TC: Tcfg>(case: &Case, st: &mut Stats) -> R {
    let c = TC::CFG;
    let s1 = case.set.leaves();
    let e = case.set.epochs.clamp(1, 3) as u64;
    let members: Vec<[u8; 32]> = s1.keys().cloned().collect();
    // new leaves for epoch e+1
    let mut s_new: Leaves = BTreeMap::new();
    for (m, p) in &case.new_flips {
        let l = flip(&members[sel(*m, members.len())], *p as usize % 256);
        if !s1.contains_key(&l) {
            s_new.insert(l, (*blake3::hash(&[&l[..], b"new"].concat()).as_bytes(), e + 1));
        }
    }
    for r in &case.new_rand {
        let l = arr32(r);
        if !s1.contains_key(&l) {
            s_new.insert(l, (*blake3::hash(&[&l[..], b"new"].concat()).as_bytes(), e + 1));
        }
    }
    if s_new.is_empty() {
        let l = (0..256).rev().map(|p| flip(&members[0], p)).find(|l| !s1.contains_key(l)).unwrap();
        s_new.insert(l, ([9u8; 32], e + 1));
    }
    // honest superset tree TH = S1 ∪ new
    let mut sh = s1.clone();
    sh.extend(s_new.iter().map(|(k, v)| (*k, *v)));
    // dishonest end tree S2: one S1 leaf deleted, one replaced (new commitment), one re-dated
    let mut pick = {
        let mut i = 0usize;
        move |n: usize| {
            let s = if case.picks.is_empty() { 0 } else { case.picks[i % case.picks.len()] };
            i += 1;
            sel(s, n.max(1))
        }
    };
    let mut s2 = sh.clone();
    let victim_del = members[pick(members.len())];
    s2.remove(&victim_del);
    let victim_rep = members[pick(members.len())];
    if let Some(v) = s2.get_mut(&victim_rep) {
        *v = ([0x5A; 32], e + 1);
    }
    let victim_red = members[pick(members.len())];
    if let Some(v) = s2.get_mut(&victim_red) {
        v.1 = e + 1;
    }
    let (h1, hh, h2) = (model_root(c, &s1), model_root(c, &sh), model_root(c, &s2));
    let (st_h, azks_h) = build::<TC>(&sh, e + 1).await?;
    let (st_1, azks_1) = build::<TC>(&s1, e).await?;
    let (st_2, azks_2) = build::<TC>(&s2, e + 1).await?;
    ensure!(azks_h.get_root_hash::<TC, _>(&st_h).await.ok() == Some(hh) && azks_1.get_root_hash::<TC, _>(&st_1).await.ok() == Some(h1) && azks_2.get_root_hash::<TC, _>(&st_2).await.ok() == Some(h2), "tree-root-mismatch", "real trees disagree with model roots");
    let w = World::new(c, &s1, vec![&sh, &s2]);
    // (1) control: the honest proof is accepted
    let honest = azks_h.get_append_only_proof::<TC, _>(&st_h, e, e + 1, ParKind::Disabled.cfg()).await.map_err(akd_err("audit-gen-err", "get_append_only_proof"))?;
    ensure!(honest.proofs.len() == 1, "audit-gen-shape", "expected a single-step proof");
    let hp = honest.proofs[0].clone();
    if let Err(err) = verify_consecutive_append_only::<TC>(&hp, h1, hh, e + 1).await {
        let start_ok = reconstruct::<TC>(hp.unchanged_nodes.clone(), None).await.map(|x| x.2 == h1);
        let labels: Vec<String> = hp.unchanged_nodes.iter().map(|x| x.label.to_string()).collect();
        return fail("audit-honest-rejected", format!("honest append-only proof ({} unchanged, {} inserted) rejected: {err:?}; start reconstruction matches: {start_ok:?}; unchanged labels {labels:?} inserted {:?}", hp.unchanged_nodes.len(), hp.inserted.len(), hp.inserted.iter().map(|x| x.label.to_string()).collect::<Vec<_>>()));
    }
    ensure!(prefix_free(&hp), "honest-not-prefix-free", "honest proof has overlapping nodes (harness assumption broken)");
    let ends: Vec<(&str, D)> = vec![("honest superset root", hh), ("dishonest tree root", h2)];
    judge::<TC>(&w, "honest proof", &hp, h1, &ends, e + 1, st).await?;
    // material
    let t1 = Tree { st: &st_1, epoch: e };
    let t2 = Tree { st: &st_2, epoch: e + 1 };
    let interior: Vec<AzksElement> = hp.unchanged_nodes.iter().filter(|x| x.label.label_len < 256).cloned().collect();
    let mut cands: Vec<(String, SingleAppendOnlyProof)> = vec![];
    // (a) shadowing: an inserted leaf that extends the label of an unchanged interior node
    for n in interior.iter().take(3) {
        let mut l = n.label.label_val;
        for i in n.label.label_len..256 {
            if pick(2) == 1 {
                l = flip(&l, i as usize);
            }
        }
        let mut p = hp.clone();
        p.inserted.push(AzksElement { label: NodeLabel::new(l, 256), value: AzksValue([0x33; 32]) });
        cands.push((format!("shadow: inserted leaf below unchanged interior node {}", n.label), p.clone()));
        let mut p2 = hp.clone();
        p2.inserted = vec![AzksElement { label: NodeLabel::new(l, 256), value: AzksValue([0x33; 32]) }];
        cands.push((format!("shadow (only inserted leaf) below {}", n.label), p2));
        // a real S1 leaf below N re-inserted with a new value (replacement)
        if let Some(x) = members.iter().find(|m| n.label.is_prefix_of(&NodeLabel::new(**m, 256))) {
            let mut p3 = hp.clone();
            p3.inserted.push(AzksElement { label: NodeLabel::new(*x, 256), value: AzksValue([0x44; 32]) });
            cands.push((format!("replacement of S1 leaf {} hidden below unchanged node {}", hex::encode(x), n.label), p3));
        }
    }
    // (b) an unchanged node together with one of its descendants / ancestors
    for m in members.iter().take(3) {
        let path = t1.path(NodeLabel::new(*m, 256)).await;
        for n in path.iter().skip(1) {
            let el = AzksElement { label: n.label, value: Tree::<AsyncInMemoryDatabase>::parent_view::<TC>(n) };
            if !hp.unchanged_nodes.contains(&el) {
                let mut p = hp.clone();
                p.unchanged_nodes.push(el);
                cands.push((format!("unchanged list also contains real T1 node {}", n.label), p));
            }
        }
    }
    // (c) duplicates within / between the lists
    if let Some(x) = hp.unchanged_nodes.first() {
        let mut p = hp.clone();
        p.unchanged_nodes.push(*x);
        cands.push(("duplicate unchanged element".into(), p));
        let mut p = hp.clone();
        p.inserted.push(*x);
        cands.push(("unchanged element repeated in inserted".into(), p));
        let mut p = hp.clone();
        let mut y = *x;
        y.value = AzksValue([0x77; 32]);
        p.unchanged_nodes.push(y);
        cands.push(("unchanged label twice with different hashes".into(), p.clone()));
        p.unchanged_nodes.swap(0, hp.unchanged_nodes.len());
        cands.push(("unchanged label twice with different hashes (other order)".into(), p));
    }
    if let Some(x) = hp.inserted.first() {
        let mut p = hp.clone();
        p.inserted.push(*x);
        cands.push(("duplicate inserted element".into(), p));
        let mut p = hp.clone();
        let mut y = *x;
        y.value = AzksValue([0x78; 32]);
        p.inserted.insert(0, y);
        cands.push(("inserted label twice with different values".into(), p));
    }
    // (d) garbage bits beyond label_len, (e) the root label as an element
    if let Some(n) = interior.first() {
        let mut p = hp.clone();
        let k = p.unchanged_nodes.iter().position(|x| x == n).unwrap();
        p.unchanged_nodes[k].label.label_val[31] ^= 1;
        cands.push(("unchanged interior label with a garbage bit beyond label_len".into(), p));
    }
    let mut p = hp.clone();
    p.unchanged_nodes.push(AzksElement { label: NodeLabel::root(), value: AzksValue(t1.root().await.hash.0) });
    cands.push(("root label as an unchanged element".into(), p));
    let p = SingleAppendOnlyProof { unchanged_nodes: vec![AzksElement { label: NodeLabel::root(), value: AzksValue(t1.root().await.hash.0) }], inserted: hp.inserted.clone() };
    cands.push(("only the root as unchanged element".into(), p));
    // (f) real transitions that delete / replace / re-date: frontier of the dishonest tree
    let dis = azks_2.get_append_only_proof::<TC, _>(&st_2, e, e + 1, ParKind::Disabled.cfg()).await.map_err(akd_err("audit-gen-err", "dishonest tree proof"))?;
    cands.push(("frontier of the dishonest end tree (deleted/replaced/re-dated leaves)".into(), dis.proofs[0].clone()));
    for v in [victim_del, victim_rep, victim_red] {
        // honest proof but with the unchanged element covering the victim swapped for the dishonest tree's node at the same label
        if let Some(k) = hp.unchanged_nodes.iter().position(|x| x.label.is_prefix_of(&NodeLabel::new(v, 256))) {
            if let Some(n2) = t2.node(hp.unchanged_nodes[k].label).await {
                let mut p = hp.clone();
                p.unchanged_nodes[k].value = Tree::<AsyncInMemoryDatabase>::parent_view::<TC>(&n2);
                cands.push((format!("unchanged element covering {} replaced by the dishonest tree's node", hex::encode(v)), p));
            }
            let mut p = hp.clone();
            let moved = p.unchanged_nodes.remove(k);
            cands.push((format!("unchanged element covering {} dropped", hex::encode(v)), p.clone()));
            if moved.label.label_len == 256 {
                if let Some((cm, _)) = s1.get(&moved.label.label_val) {
                    p.inserted.push(AzksElement { label: moved.label, value: AzksValue(*cm) });
                    cands.push((format!("S1 leaf {} moved from unchanged to inserted (re-dated)", hex::encode(v)), p));
                }
            }
        }
    }
    // (g) an inserted element dropped / an interior-length inserted element
    if hp.inserted.len() > 1 {
        let mut p = hp.clone();
        p.inserted.pop();
        cands.push(("one inserted leaf dropped (still a valid append-only step to another tree)".into(), p));
    }
    if let Some(n) = interior.first() {
        let mut p = hp.clone();
        p.inserted.push(AzksElement { label: n.label.get_prefix(n.label.label_len.saturating_sub(1)), value: AzksValue([0x21; 32]) });
        cands.push(("inserted element with a short (interior) label above an unchanged node".into(), p));
    }
    for (what, p) in cands {
        let shadow = what.starts_with("shadow") || what.starts_with("replacement");
        let before = st.accepted;
        judge::<TC>(&w, &what, &p, h1, &ends, e + 1, st).await?;
        let _ = before;
        if shadow {
            st.shadow_own_hash += 1;
        }
    }
    // (3b) multi-step splices: steps taken from the honest history followed by steps of the dishonest history (and
    // vice versa), presented for the root hashes each step's own source tree had - every step's END hash is then
    // right, only the START hash of the first spliced step is not. Accepted => each consecutive pair of (known)
    // root hashes must commit a growing leaf set.
    {
        let at = |set: &Leaves, k: u64| -> Leaves { set.iter().filter(|(_, (_, ep))| *ep <= k).map(|(a, b)| (*a, *b)).collect() };
        let roots_h: Vec<D> = (0..=e + 1).map(|k| model_root(c, &at(&sh, k))).collect();
        let roots_2: Vec<D> = (0..=e + 1).map(|k| model_root(c, &at(&s2, k))).collect();
        let full_h = azks_h.get_append_only_proof::<TC, _>(&st_h, 0, e + 1, ParKind::Disabled.cfg()).await.map_err(akd_err("audit-gen-err", "honest multi-epoch proof"))?;
        let full_2 = azks_2.get_append_only_proof::<TC, _>(&st_2, 0, e + 1, ParKind::Disabled.cfg()).await.map_err(akd_err("audit-gen-err", "dishonest-tree multi-epoch proof"))?;
        ensure!(audit_verify::<TC>(roots_h.clone(), full_h.clone()).await.is_ok(), "audit-honest-rejected", "honest multi-epoch proof 0..{} rejected", e + 1);
        for j in 1..=e as usize {
            for first_honest in [true, false] {
                let (pa, pb, ra, rb, sa, sb) = if first_honest { (&full_h, &full_2, &roots_h, &roots_2, &sh, &s2) } else { (&full_2, &full_h, &roots_2, &roots_h, &s2, &sh) };
                let proof = AppendOnlyProof { proofs: [&pa.proofs[..j], &pb.proofs[j..]].concat(), epochs: (0..=e).collect() };
                let hashes: Vec<D> = [&ra[..=j], &rb[j + 1..]].concat();
                st.candidates += 1;
                if audit_verify::<TC>(hashes, proof).await.is_ok() {
                    st.accepted += 1;
                    // the only unknown transition is the splice point: leaves committed by ra[j] vs rb[j+1]
                    let before = at(sa, j as u64);
                    let after = at(sb, j as u64 + 1);
                    let lost = before.iter().filter(|(l, v)| after.get(*l) != Some(*v)).count();
                    ensure!(
                        lost == 0,
                        "audit-accepts-spliced-history",
                        "a {}-step audit whose first {j} step(s) come from the {} history and the rest from the other one was accepted for the hashes of the respective source trees, although {lost} leaf/leaves committed by hash #{j} are not committed unchanged by hash #{}",
                        e + 1,
                        if first_honest { "honest" } else { "dishonest" },
                        j + 1
                    );
                }
            }
        }
    }
    // (4)/(5): multi-epoch proof: inconsistent lengths, altered root hashes
    if e >= 2 {
        let roots: Vec<D> = (0..=e + 1).map(|i| model_root(c, &sh.iter().filter(|(_, (_, ep))| *ep <= i).map(|(k, v)| (*k, *v)).collect())).collect();
        let full = azks_h.get_append_only_proof::<TC, _>(&st_h, 0, e + 1, ParKind::Disabled.cfg()).await.map_err(akd_err("audit-gen-err", "multi-epoch proof"))?;
        st.multi += 1;
        ensure!(audit_verify::<TC>(roots.clone(), full.clone()).await.is_ok(), "audit-honest-rejected", "honest multi-epoch proof 0..{} rejected", e + 1);
        for i in 0..roots.len() {
            let mut r = roots.clone();
            r[i][pick(32)] ^= 1 << pick(8);
            st.candidates += 1;
            ensure!(audit_verify::<TC>(r, full.clone()).await.is_err(), "audit-altered-root-accepted", "multi-epoch proof accepted although root hash #{i} was altered");
            if i + 1 < roots.len() {
                let mut r = roots.clone();
                r.swap(i, i + 1);
                if r != roots {
                    ensure!(audit_verify::<TC>(r, full.clone()).await.is_err(), "audit-altered-root-accepted", "multi-epoch proof accepted with root hashes #{i} and #{} swapped", i + 1);
                }
            }
        }
        let variants: Vec<(&str, Vec<D>, AppendOnlyProof)> = vec![
            ("one hash too few", roots[..roots.len() - 1].to_vec(), full.clone()),
            ("one hash too many", [roots.clone(), vec![roots[0]]].concat(), full.clone()),
            ("epochs list one short", roots.clone(), AppendOnlyProof { proofs: full.proofs.clone(), epochs: full.epochs[..full.epochs.len() - 1].to_vec() }),
            ("proof list one short", roots.clone(), AppendOnlyProof { proofs: full.proofs[..full.proofs.len() - 1].to_vec(), epochs: full.epochs.clone() }),
            ("proof list and epochs one short", roots.clone(), AppendOnlyProof { proofs: full.proofs[..full.proofs.len() - 1].to_vec(), epochs: full.epochs[..full.epochs.len() - 1].to_vec() }),
            ("epochs list one longer", roots.clone(), AppendOnlyProof { proofs: full.proofs.clone(), epochs: [full.epochs.clone(), vec![e + 1]].concat() }),
            ("no hashes", vec![], full.clone()),
        ];
        for (name, r, p) in variants {
            st.candidates += 1;
            ensure!(audit_verify::<TC>(r, p).await.is_err(), "audit-length-mismatch-accepted", "multi-epoch proof accepted with inconsistent lists: {name}");
        }
        // epochs relabelled: the leaves are then hashed with the wrong epoch
        let mut p = full.clone();
        p.epochs.reverse();
        if p.epochs != full.epochs && full.proofs.iter().all(|x| !x.inserted.is_empty()) {
            ensure!(audit_verify::<TC>(roots.clone(), p).await.is_err(), "audit-wrong-epochs-accepted", "multi-epoch proof accepted with a reversed epoch list");
        }
    }
    Ok(())
}

pub fn check(case: &Case, ctx: &mut Ctx) -> R {
    let mut st = Stats::default();
    let r = (|| {
        both_cfgs!(run_cfg(case, &mut st));
        Ok(())
    })();
    ctx.count("candidate_verifications", st.candidates);
    ctx.count("accepted", st.accepted);
    ctx.count("shadowing_candidates", st.shadow_own_hash);
    ctx.count("non_prefix_free_candidates", st.nonprefixfree);
    ctx.count("multi_epoch_proofs", st.multi);
    if st.shadow_own_hash > 0 {
        ctx.nontrivial(fp_json(case));
        ctx.sample(case);
    } else {
        ctx.class("no_interior_unchanged_node");
    }
    r
}

pub fn strategy(thorough: bool) -> impl Strategy<Value = Case> {
    let max_derived = if thorough { 40 } else { 14 };
    (
        crate::props::c05::leafset_strategy(max_derived),
        proptest::collection::vec((any::<u16>(), prop_oneof![2 => 0u16..256, 1 => Just(255u16)]), 0..5),
        proptest::collection::vec(proptest::collection::vec(any::<u8>(), 32..=32), 0..3),
        proptest::collection::vec(any::<u16>(), 4..12),
    )
        .prop_map(|(set, new_flips, new_rand, picks)| Case { set, new_flips, new_rand, picks })
}

pub fn run(eng: &mut Engine) {
    let thorough = eng.tier == Tier::Thorough;
    eng.assume("ground truth: a leaf of the start set counts as still committed iff the structure committed by the end hash contains a node identical (label and hash) to a node of a known tree that has this leaf, unchanged, below it");
    eng.assume("the adversary's strongest end hash is computed by repeating the auditor's own reconstruction through the public Azks API");
    eng.prop_part(
        "transitions",
        "generated start sets (1-3 epochs) + new leaves; candidates: honest frontier (control), shadowing leaves below unchanged interior nodes, hidden replacements, node+descendant, duplicates, garbage label bits, root as element, frontier/nodes of a dishonest end tree (deleted/replaced/re-dated leaves), dropped/moved elements; each under 3 end-hash choices incl. the auditor's own reconstruction; multi-epoch proofs with altered/swapped root hashes and inconsistent list lengths; non-trivial = a shadowing candidate with adversarial end hash was evaluated; distinct by case",
        eng.tier.pick(12_000, 200_000),
        || strategy(thorough),
        check,
    );
    eng.fuzz_part_from_env("fuzz_c09");
}
