use crate::engine::Engine;
pub mod c01;
pub mod readfaults;
pub mod c02;
pub mod c03;
pub mod c04;
pub mod c05;
pub mod c06;
pub mod c07;
pub mod c08;
pub mod c09;
pub mod c10;
pub mod c11;
pub mod c12;
pub mod c13;
pub mod c14;
pub mod c15;
pub mod c16;
pub mod c17;
pub mod c18;
pub mod c19;
pub mod c20;

pub fn run(id: &str, eng: &mut Engine) -> bool {
    match id {
        "C01" => c01::run(eng),
        "C02" => c02::run(eng),
        "C03" => c03::run(eng),
        "C04" => c04::run(eng),
        "C05" => c05::run(eng),
        "C06" => c06::run(eng),
        "C07" => c07::run(eng),
        "C08" => c08::run(eng),
        "C09" => c09::run(eng),
        "C10" => c10::run(eng),
        "C11" => c11::run(eng),
        "C12" => c12::run(eng),
        "C13" => c13::run(eng),
        "C14" => c14::run(eng),
        "C15" => c15::run(eng),
        "C16" => c16::run(eng),
        "C17" => c17::run(eng),
        "C18" => c18::run(eng),
        "C19" => c19::run(eng),
        "C20" => c20::run(eng),
        _ => return false,
    }
    true
}
