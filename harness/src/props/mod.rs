use crate::engine::Engine;
pub mod c01;

pub fn run(id: &str, eng: &mut Engine) -> bool {
    match id {
        "C01" => c01::run(eng),
        _ => return false,
    }
    true
}
pub const ALL: &[&str] = &["C01"];
