//! C18 - a node label is bound to the key, label, freshness and version it was derived from.
use crate::dirx::*;
use crate::engine::*;
use crate::model::*;
use crate::{both_cfgs, ensure};
use akd::ecvrf::{Proof, VRFKeyStorage};
use akd::storage::memory::AsyncInMemoryDatabase;
use akd::verify::base::verif_hooks as vh;
use akd::{AkdLabel, AkdValue, NodeLabel, VersionFreshness};
use proptest::prelude::*;
use serde::{Deserialize, Serialize};
use std::convert::TryFrom;

#[derive(Serialize, Deserialize, Clone, Debug)]
pub struct Case {
    #[serde(with = "crate::gen::hexvec")]
    pub key: Vec<u8>,
    #[serde(with = "crate::gen::hexvec")]
    pub key2: Vec<u8>,
    #[serde(with = "crate::gen::hexvec")]
    pub label: Vec<u8>,
    pub fresh: bool,
    pub version: u64,
    #[serde(with = "crate::gen::hexvec")]
    pub value: Vec<u8>,
    pub edits: Vec<(u8, u8)>,
    pub full_sweep: bool,
    pub via_directory: bool,
}
#[derive(Default)]
pub struct Stats {
    flips: u64,
    alterations: u64,
    dir: u64,
}
fn fr(b: bool) -> VersionFreshness {
    if b {
        VersionFreshness::Fresh
    } else {
        VersionFreshness::Stale
    }
}

async fn run_cfg<TC: Tcfg>(case: &Case, st: &mut Stats) -> R {
    let c = TC::CFG;
    let key = if case.key.len() == 32 { case.key.clone() } else { hard_key() };
    let vrf = KeyVrf(key.clone());
    let pk = public_key(&key);
    let label = AkdLabel(case.label.clone());
    let (f, ver) = (fr(case.fresh), case.version);
    // --- round trip and determinism
    let proof = vrf.get_label_proof::<TC>(&label, f, ver).await.map_err(akd_err("vrf-err", "get_label_proof"))?;
    let pb = proof.to_bytes();
    let nl = vrf.get_node_label::<TC>(&label, f, ver).await.map_err(akd_err("vrf-err", "get_node_label"))?;
    ensure!(nl.label_len == 256, "nodelabel-len", "node label has length {}", nl.label_len);
    let from_proof = vrf.get_node_label_from_vrf_proof(proof).await;
    ensure!(from_proof == nl, "nodelabel-proof-vs-eval", "node label from the proof {from_proof} differs from the evaluated node label {nl}");
    let proof2 = vrf.get_label_proof::<TC>(&label, f, ver).await.map_err(akd_err("vrf-err", "get_label_proof"))?;
    let nl2 = vrf.get_node_label::<TC>(&label, f, ver).await.map_err(akd_err("vrf-err", "get_node_label"))?;
    ensure!(proof2.to_bytes() == pb && nl2 == nl, "vrf-nondeterministic", "second evaluation gives a different proof or node label");
    // independent derivation: own VRF input (blake3) and own proof-to-hash (sha512 over 8*Gamma)
    let mut m = Model::new(c, &key);
    let mnl = m.node_label(&case.label, case.fresh, ver);
    ensure!(mnl == nl.label_val, "nodelabel-vs-model", "node label {nl} differs from the independently derived {}", hex::encode(mnl));
    ensure!(node_label_from_proof_bytes(&pb) == Some(nl.label_val), "nodelabel-vs-proof-hash", "node label is not the first 32 bytes of proof_to_hash(Gamma)");
    // batch evaluation agrees (other entries around it)
    let batch = vec![
        (AkdLabel(b"other".to_vec()), VersionFreshness::Fresh, 1u64, AkdValue(vec![])),
        (label.clone(), f, ver, AkdValue(case.value.clone())),
        (label.clone(), fr(!case.fresh), ver, AkdValue(case.value.clone())),
        (label.clone(), f, ver.wrapping_add(1), AkdValue(case.value.clone())),
    ];
    let res = vrf.get_node_labels::<TC>(&batch).await.map_err(akd_err("vrf-err", "get_node_labels"))?;
    ensure!(res.len() == batch.len(), "batch-len", "get_node_labels returned {} results for {} inputs", res.len(), batch.len());
    for ((l, ff, v, val), got) in &res {
        let single = vrf.get_node_label::<TC>(l, *ff, *v).await.map_err(akd_err("vrf-err", "get_node_label"))?;
        ensure!(*got == single, "batch-vs-single", "get_node_labels maps ({}, {ff:?}, {v}) to {got} but the single evaluation gives {single}", hex::encode(&l.0));
        ensure!(batch.iter().any(|b| b.0 == *l && b.1 == *ff && b.2 == *v && b.3 == *val), "batch-tuple", "get_node_labels returned a tuple that was not requested");
    }
    ensure!(vh::verify_label::<TC>(&pk, &label, f, ver, &pb, nl).is_ok(), "verify-honest-rejected", "honest VRF proof does not verify under the public key");
    // --- metamorphic: altering exactly one input must make verification fail
    let key2 = if case.key2.len() == 32 && case.key2 != key { case.key2.clone() } else { key_bytes(3) };
    let pk2 = public_key(&key2);
    let mut alts: Vec<(String, Result<(), akd::verify::VerificationError>)> = vec![];
    alts.push(("other public key".into(), vh::verify_label::<TC>(&pk2, &label, f, ver, &pb, nl)));
    alts.push(("freshness flipped".into(), vh::verify_label::<TC>(&pk, &label, fr(!case.fresh), ver, &pb, nl)));
    for v2 in [ver.wrapping_add(1), ver.wrapping_sub(1), ver ^ (1 << 63), ver ^ 0x100, ver.swap_bytes()] {
        if v2 != ver {
            alts.push((format!("version {v2}"), vh::verify_label::<TC>(&pk, &label, f, v2, &pb, nl)));
        }
    }
    let mut labels2: Vec<Vec<u8>> = vec![[case.label.clone(), vec![0]].concat(), [case.label.clone(), vec![b'b']].concat(), [vec![0], case.label.clone()].concat()];
    if !case.label.is_empty() {
        labels2.push(case.label[..case.label.len() - 1].to_vec());
        let mut x = case.label.clone();
        x[0] ^= 1;
        labels2.push(x);
        let mut x = case.label.clone();
        let k = x.len() - 1;
        x[k] ^= 0x80;
        labels2.push(x);
    }
    for l2 in labels2 {
        alts.push((format!("label {}", hex::encode(&l2)), vh::verify_label::<TC>(&pk, &AkdLabel(l2), f, ver, &pb, nl)));
    }
    for bitpos in [0usize, 7, 8, 100, 255] {
        let mut v = nl.label_val;
        v[bitpos / 8] ^= 1 << (7 - bitpos % 8);
        alts.push((format!("claimed node label bit {bitpos} flipped"), vh::verify_label::<TC>(&pk, &label, f, ver, &pb, NodeLabel::new(v, 256))));
    }
    alts.push(("claimed node label length 255".into(), vh::verify_label::<TC>(&pk, &label, f, ver, &pb, NodeLabel::new(nl.label_val, 255))));
    for (what, r) in alts {
        st.alterations += 1;
        ensure!(r.is_err(), "altered-input-verifies", "verification still succeeds with {what} (label {}, fresh={}, version {ver})", hex::encode(&case.label), case.fresh);
    }
    // --- no alteration of the proof bytes makes a different node label verify
    let mut variants: Vec<Vec<u8>> = vec![];
    if case.full_sweep {
        for i in 0..640 {
            let mut p = pb.to_vec();
            p[i / 8] ^= 1 << (i % 8);
            variants.push(p);
        }
    }
    let mut p = pb.to_vec();
    for (pos, val) in &case.edits {
        p[*pos as usize % 80] ^= *val | 1;
        variants.push(p.clone());
    }
    variants.push(pb[..79].to_vec());
    variants.push([&pb[..], &[0u8]].concat());
    variants.push(vec![]);
    // the proof of another tuple / another key
    variants.push(vrf.get_label_proof::<TC>(&label, fr(!case.fresh), ver).await.unwrap().to_bytes().to_vec());
    variants.push(KeyVrf(key2.clone()).get_label_proof::<TC>(&label, f, ver).await.unwrap().to_bytes().to_vec());
    for p in variants {
        st.flips += 1;
        if p == pb {
            continue;
        }
        // candidate node labels: the honest one and whatever the altered proof hashes to
        let mut claims = vec![nl];
        if let Ok(pp) = Proof::try_from(&p[..]) {
            claims.push(vrf.get_node_label_from_vrf_proof(pp).await);
        }
        for claim in claims {
            if vh::verify_label::<TC>(&pk, &label, f, ver, &p, claim).is_ok() {
                ensure!(claim == nl, "altered-proof-new-label", "an altered proof {} verifies for a different node label {claim}", hex::encode(&p));
            }
        }
    }
    // --- different secrets: different node labels, nonces and commitments
    let nlk2 = KeyVrf(key2.clone()).get_node_label::<TC>(&label, f, ver).await.unwrap();
    ensure!(nlk2 != nl, "keys-same-label", "two different secret keys give the same node label");
    let (ck1, ck2) = (TC::hash(&key), TC::hash(&key2));
    let val = AkdValue(case.value.clone());
    ensure!(TC::get_commitment_nonce(&ck1, &nl, ver, &val) != TC::get_commitment_nonce(&ck2, &nl, ver, &val), "keys-same-nonce", "commitment nonce does not depend on the secret key");
    ensure!(TC::compute_fresh_azks_value(&ck1, &nl, ver, &val) != TC::compute_fresh_azks_value(&ck2, &nl, ver, &val), "keys-same-commitment", "value commitment does not depend on the secret key");
    // --- end to end: the directory places exactly this node label in the tree and derives the commitment key from the secret
    if case.via_directory {
        st.dir += 1;
        let dir = new_dir::<TC, _>(manager(AsyncInMemoryDatabase::new(), CacheKind::None), &key, ParKind::Disabled).await?;
        dir.publish(vec![(label.clone(), val.clone())]).await.map_err(akd_err("publish-err", "publish"))?;
        let (lp, eh) = dir.lookup(label.clone()).await.map_err(akd_err("lookup-err", "lookup"))?;
        let fresh1 = vrf.get_node_label::<TC>(&label, VersionFreshness::Fresh, 1).await.unwrap();
        ensure!(lp.existence_proof.label == fresh1, "tree-label-mismatch", "the leaf placed in the tree {} is not the VRF node label {fresh1}", lp.existence_proof.label);
        ensure!(lp.commitment_nonce == commitment_nonce(c, &h(c, &[&key]), &fresh1.label_val, 1, &case.value).to_vec(), "nonce-not-from-secret", "commitment nonce is not derived from H(secret key)");
        let r = verify_lookup::<TC>(&pk, eh.1, eh.0, &case.label, lp.clone());
        ensure!(r.is_ok(), "lookup-verify", "lookup proof under key does not verify: {r:?}");
        ensure!(verify_lookup::<TC>(&pk2, eh.1, eh.0, &case.label, lp).is_err(), "lookup-verifies-under-other-key", "lookup proof verifies under a different public key");
    }
    Ok(())
}

pub fn check(case: &Case, ctx: &mut Ctx) -> R {
    let mut st = Stats::default();
    let r = (|| {
        both_cfgs!(run_cfg(case, &mut st));
        Ok(())
    })();
    ctx.count("proof_byte_variants", st.flips);
    ctx.count("single_input_alterations", st.alterations);
    ctx.count("end_to_end_directory_checks", st.dir);
    if case.full_sweep {
        ctx.class("full_640_flip_sweep");
        ctx.nontrivial(fp(&(&case.key, &case.label, case.fresh, case.version)));
        ctx.sample(case);
    }
    if case.version > u32::MAX as u64 {
        ctx.class("version>2^32");
    }
    if case.label.is_empty() {
        ctx.class("empty_label");
    }
    r
}

pub fn strategy(sweep_weight: u32) -> impl Strategy<Value = Case> {
    let key = || prop_oneof![1 => Just(hard_key()), 3 => proptest::collection::vec(any::<u8>(), 32..=32)];
    let version = prop_oneof![
        3 => prop_oneof![Just(0u64), Just(1), Just(2), Just(u64::MAX), Just(u64::MAX - 1)],
        3 => (0u32..64, 0u64..3).prop_map(|(k, d)| (1u64 << k).wrapping_add(d).wrapping_sub(1)),
        2 => any::<u64>(),
        2 => 1u64..40,
    ];
    (
        key(),
        key(),
        crate::gen::label_strategy(),
        any::<bool>(),
        version,
        crate::gen::value_strategy(),
        proptest::collection::vec((any::<u8>(), any::<u8>()), 0..6),
        prop_oneof![sweep_weight => Just(true), (10 - sweep_weight) => Just(false)],
        prop_oneof![1 => Just(true), 7 => Just(false)],
    )
        .prop_map(|(key, key2, label, fresh, version, value, edits, full_sweep, via_directory)| Case { key, key2, label, fresh, version, value, edits, full_sweep, via_directory })
}

pub fn run(eng: &mut Engine) {
    eng.assume("the elliptic-curve arithmetic of RFC 9381 (curve25519-dalek) is trusted; the VRF input hash and proof_to_hash are recomputed independently (blake3 / sha512)");
    eng.prop_part(
        "tuples",
        "generated (key, label, freshness, version) tuples: keys random + hard-coded, labels empty/long/prefix-related, versions 0,1,2^k-1..2^k+1,u64::MAX,random; round-trip, determinism, batch-vs-single, independent re-derivation, ~20 single-input alterations, 640 single-bit proof flips (full sweep on a share of cases) + random multi-byte edits + wrong-length/foreign proofs, second-key comparison, end-to-end via a directory on a share of cases; non-trivial = distinct tuple with the full 640-flip sweep",
        eng.tier.pick(3000, 40_000),
        || strategy(3),
        check,
    );
}
