//! C20 - tombstoning old values never changes what the directory has committed to.
use crate::dirx::*;
use crate::engine::*;
use crate::gen::*;
use crate::model::*;
use crate::{both_cfgs, ensure};
use akd::storage::memory::AsyncInMemoryDatabase;
use akd::{AkdLabel, AkdValue, VerifyResult};
use proptest::prelude::*;
use serde::{Deserialize, Serialize};
use std::collections::HashSet;

#[derive(Serialize, Deserialize, Clone, Debug)]
pub struct Tomb {
    /// applied after this batch (selector over batches)
    pub at: u16,
    pub label: u16,
    pub cutoff: u16,
}
#[derive(Serialize, Deserialize, Clone, Debug)]
pub struct Case {
    pub hist: Hist,
    pub cache: CacheKind,
    pub par: ParKind,
    pub tombs: Vec<Tomb>,
}
#[derive(Default)]
pub struct Stats {
    pub applied: u64,
    pub inside: bool,
    pub publish_after: bool,
    pub default_rejected: u64,
    pub default_accepted: u64,
}

async fn run_cfg<TC: Tcfg>(case: &Case, st: &mut Stats) -> R {
    let (db_c, db_s) = (AsyncInMemoryDatabase::new(), AsyncInMemoryDatabase::new());
    let st_s = manager(db_s.clone(), case.cache);
    let mut ctl = Sys::<TC, _>::new(manager(db_c.clone(), case.cache), case.hist.key, case.par).await?;
    let mut sub = Sys::<TC, _>::new(st_s.clone(), case.hist.key, case.par).await?;
    let (batches, _) = case.hist.resolve();
    let mut pool: Vec<Vec<u8>> = vec![];
    for l in &case.hist.labels {
        if !pool.contains(l) {
            pool.push(l.clone());
        }
    }
    // (label, version) pairs whose stored value was replaced by a tombstone
    let mut tombed: HashSet<(Vec<u8>, u64)> = HashSet::new();
    let mut tomb_labels: HashSet<Vec<u8>> = HashSet::new();
    for (i, b) in batches.iter().enumerate() {
        let c1 = ctl.publish(b, i).await?;
        let c2 = sub.publish(b, i).await?;
        ensure!(c1 == c2, "tomb-publish-diverged", "step {i}: control changed={c1} subject changed={c2}");
        if c2 {
            for (l, _) in b {
                if tomb_labels.contains(l) {
                    st.publish_after = true;
                }
            }
        }
        let mut applied_now = false;
        for t in &case.tombs {
            if sel(t.at, batches.len()) != i {
                continue;
            }
            let cands: Vec<&Vec<u8>> = pool.iter().filter(|l| sub.m.versions_at(l, sub.m.epoch).len() >= 2).collect();
            if cands.is_empty() {
                continue;
            }
            let l = cands[sel(t.label, cands.len())].clone();
            let vers = sub.m.versions_at(&l, sub.m.epoch);
            let latest_epoch = vers.last().unwrap().epoch;
            let first_epoch = vers[0].epoch;
            // cut-off strictly before the latest update (property precondition), from the first version's epoch on
            let cutoff = first_epoch + sel(t.cutoff, (latest_epoch - first_epoch) as usize) as u64;
            st_s.tombstone_value_states(&AkdLabel(l.clone()), cutoff).await.map_err(akd_err("tombstone-err", "tombstone_value_states failed"))?;
            st.applied += 1;
            applied_now = true;
            let n_tombed = vers.iter().filter(|v| v.epoch <= cutoff).count();
            if n_tombed >= 1 && n_tombed < vers.len() {
                st.inside = true;
            }
            for v in vers.iter().filter(|v| v.epoch <= cutoff && !v.value.is_empty()) {
                tombed.insert((l.clone(), v.version));
            }
            tomb_labels.insert(l);
        }
        if !(c2 || applied_now) {
            continue;
        }
        let e = sub.m.epoch;
        let root = sub.m.roots[e as usize];
        ensure!(ctl.m.roots == sub.m.roots, "tomb-roots", "model roots differ (harness bug)");
        let (eh_c, eh_s) = (ctl.dir.get_epoch_hash().await.map_err(akd_err("epoch-hash-err", "control"))?, sub.dir.get_epoch_hash().await.map_err(akd_err("epoch-hash-err", "subject"))?);
        ensure!(eh_c == eh_s && eh_s.0 == e && eh_s.1 == root, "tomb-epoch-hash", "epoch hash changed by tombstoning: control {:?} subject {:?}", eh_c, eh_s);
        for l in &pool {
            let total = sub.m.versions_at(l, e).len();
            if total == 0 {
                continue;
            }
            // lookup: identical in both runs and equal to the model (also for the tombstoned label)
            let exp = expected_lookup(&sub.m, l, e).unwrap();
            let (ps, _) = sub.dir.lookup(AkdLabel(l.clone())).await.map_err(akd_err("tomb-lookup-err", "subject lookup failed"))?;
            let (pc, _) = ctl.dir.lookup(AkdLabel(l.clone())).await.map_err(akd_err("tomb-lookup-err", "control lookup failed"))?;
            ensure!(ps == pc, "tomb-lookup-proof-changed", "epoch {e} label {}: lookup proof differs between control and tombstoned run", hex::encode(l));
            let r = verify_lookup::<TC>(&sub.pk, root, e, l, ps);
            ensure!(r.as_ref().ok() == Some(&exp), "tomb-lookup-result", "epoch {e} label {}: lookup after tombstoning gave {:?}, expected {:?}", hex::encode(l), r, exp);
            let mut params = vec![HP::Complete, HP::MostRecent(1), HP::MostRecent(2)];
            if total > 2 {
                params.push(HP::MostRecent(total - 1));
            }
            for p in params {
                let truth = expected_history(&sub.m, l, e, p);
                let exp_missing: Vec<VerifyResult> = truth
                    .iter()
                    .map(|v| if tombed.contains(&(l.clone(), v.version)) { VerifyResult { value: AkdValue(vec![]), ..v.clone() } } else { v.clone() })
                    .collect();
                let has_tomb = truth.iter().any(|v| tombed.contains(&(l.clone(), v.version)));
                let (hs, ehs) = sub.dir.key_history(&AkdLabel(l.clone()), p.to()).await.map_err(akd_err("tomb-history-err", "subject key_history failed"))?;
                check_eh(&ehs, &sub.m, "key_history after tombstone")?;
                let (hc, _) = ctl.dir.key_history(&AkdLabel(l.clone()), p.to()).await.map_err(akd_err("tomb-history-err", "control key_history failed"))?;
                if !tomb_labels.contains(l) {
                    ensure!(hs == hc, "tomb-other-label-changed", "epoch {e} label {} {p:?}: history proof of an untouched label differs after tombstoning another label", hex::encode(l));
                }
                let got_m = verify_history::<TC>(&sub.pk, root, e, l, hs.clone(), p.to(), true);
                ensure!(
                    got_m.as_ref().ok() == Some(&exp_missing),
                    "tomb-history-allow-missing",
                    "epoch {e} label {} {p:?}: AllowMissingValues verification gave {:?}, expected {:?}",
                    hex::encode(l),
                    got_m,
                    exp_missing
                );
                let got_d = verify_history::<TC>(&sub.pk, root, e, l, hs, p.to(), false);
                if has_tomb {
                    st.default_rejected += 1;
                    ensure!(got_d.is_err(), "tomb-default-accepts", "epoch {e} label {} {p:?}: Default verification accepted a history containing a tombstoned entry: {:?}", hex::encode(l), got_d);
                } else {
                    st.default_accepted += 1;
                    ensure!(got_d.as_ref().ok() == Some(&truth), "tomb-default-result", "epoch {e} label {} {p:?}: Default verification gave {:?}, expected {:?}", hex::encode(l), got_d, truth);
                }
            }
        }
        // audit proofs: structurally identical and verifying
        for s in 0..e {
            for t in [s + 1, e] {
                if t <= s {
                    continue;
                }
                let a_s = sub.dir.audit(s, t).await.map_err(akd_err("tomb-audit-err", "subject audit failed"))?;
                let a_c = ctl.dir.audit(s, t).await.map_err(akd_err("tomb-audit-err", "control audit failed"))?;
                ensure!(a_s == a_c, "tomb-audit-changed", "audit({s},{t}) proof differs after tombstoning");
                akd::auditor::audit_verify::<TC>(sub.m.roots[s as usize..=t as usize].to_vec(), a_s).await.map_err(akd_err("tomb-audit-verify", "audit after tombstoning does not verify"))?;
            }
        }
    }
    Ok(())
}

pub fn check(case: &Case, ctx: &mut Ctx) -> R {
    let mut st = Stats::default();
    let r = (|| {
        both_cfgs!(run_cfg(case, &mut st));
        Ok(())
    })();
    ctx.count("tombstone_ops_applied", st.applied);
    ctx.count("default_mode_rejections_expected", st.default_rejected);
    ctx.count("default_mode_acceptances_expected", st.default_accepted);
    if st.applied == 0 {
        ctx.class("no_tombstone_applicable");
    }
    if st.inside && st.publish_after {
        ctx.nontrivial(fp_json(case));
        ctx.sample(case);
    }
    r
}

pub fn strategy(thorough: bool) -> impl Strategy<Value = Case> {
    let max_e = if thorough { 20 } else { 10 };
    (
        prop_oneof![1 => hist_strategy(2, max_e, 6, 6), 2 => deep_hist_strategy(max_e + 4)],
        prop_oneof![Just(CacheKind::None), Just(CacheKind::Default)],
        prop_oneof![Just(ParKind::Disabled), Just(ParKind::Default)],
        proptest::collection::vec((any::<u16>(), any::<u16>(), any::<u16>()).prop_map(|(at, label, cutoff)| Tomb { at, label, cutoff }), 1..3),
    )
        .prop_map(|(hist, cache, par, tombs)| Case { hist, cache, par, tombs })
}

pub fn run(eng: &mut Engine) {
    let thorough = eng.tier == Tier::Thorough;
    eng.assume("cut-off epoch strictly before the label's latest update at the time of tombstoning (as stated in the property)");
    eng.assume("an entry counts as tombstoned only if its true value was non-empty (the tombstone encoding IS the empty value)");
    eng.prop_part(
        "tombstone",
        "metamorphic: the same history is run twice (control / with 1-2 tombstone operations at generated points, labels and cut-offs) and compared with each other and the model after every change; non-trivial = cut-off strictly inside the label's version list AND the label is published again afterwards; distinct by case",
        eng.tier.pick(800, 4000),
        || strategy(thorough),
        check,
    );
}
