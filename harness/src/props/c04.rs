//! C04 - every epoch range can be audited against the published root hashes.
use crate::dirx::*;
use crate::engine::*;
use crate::gen::*;
use crate::model::*;
use crate::{both_cfgs, ensure};
use akd::storage::memory::AsyncInMemoryDatabase;
use proptest::prelude::*;
use serde::{Deserialize, Serialize};

#[derive(Serialize, Deserialize, Clone, Debug)]
pub struct Case {
    pub hist: Hist,
    pub cache: CacheKind,
    pub par: ParKind,
    pub ro_cache: Option<CacheKind>,
}
#[derive(Default)]
pub struct Stats {
    pub ranges: u64,
    pub inner: u64,
    pub epochs: u64,
}

async fn audit_ok<TC: Tcfg, S: akd::storage::Database + 'static>(dir: &Dir<TC, S>, m: &Model, s: u64, e: u64, ctxs: &str) -> R {
    let proof = dir.audit(s, e).await.map_err(|err| Fail { sig: "audit-err".into(), msg: format!("{ctxs}: audit({s},{e}) at epoch {} failed: {err:?}", m.epoch) })?;
    ensure!(proof.epochs == (s..e).collect::<Vec<u64>>(), "audit-epochs", "{ctxs}: audit({s},{e}) returned epochs list {:?}", proof.epochs);
    let hashes: Vec<D> = m.roots[s as usize..=e as usize].to_vec();
    akd::auditor::audit_verify::<TC>(hashes, proof)
        .await
        .map_err(|err| Fail { sig: "audit-verify".into(), msg: format!("{ctxs}: audit({s},{e}) at epoch {} does not verify against the published roots: {err:?}", m.epoch) })
}

async fn run_cfg<TC: Tcfg>(case: &Case, st: &mut Stats) -> R {
    let db = AsyncInMemoryDatabase::new();
    let mut sys = Sys::<TC, _>::new(manager(db.clone(), case.cache), case.hist.key, case.par).await?;
    let (batches, _) = case.hist.resolve();
    for (i, b) in batches.iter().enumerate() {
        if !sys.publish(b, i).await? {
            continue;
        }
        let cur = sys.m.epoch;
        // after every epoch: the newest step and the full range
        audit_ok::<TC, _>(&sys.dir, &sys.m, cur - 1, cur, "step").await?;
        st.ranges += 1;
        if cur > 1 {
            audit_ok::<TC, _>(&sys.dir, &sys.m, 0, cur, "full").await?;
            st.ranges += 1;
        }
    }
    let cur = sys.m.epoch;
    st.epochs = cur;
    // all pairs at the end (most ranges end before the latest epoch)
    let ro = match case.ro_cache {
        Some(ck) => Some(new_ro::<TC, _>(manager(db.clone(), ck), &sys.key, case.par).await?),
        None => None,
    };
    for s in 0..cur {
        for e in s + 1..=cur {
            audit_ok::<TC, _>(&sys.dir, &sys.m, s, e, "final").await?;
            st.ranges += 1;
            if e < cur && e - s >= 2 {
                st.inner += 1;
            }
            if let Some(ro) = &ro {
                let proof = ro.audit(s, e).await.map_err(|err| Fail { sig: "audit-err".into(), msg: format!("read-only audit({s},{e}) failed: {err:?}") })?;
                akd::auditor::audit_verify::<TC>(sys.m.roots[s as usize..=e as usize].to_vec(), proof)
                    .await
                    .map_err(|err| Fail { sig: "audit-verify".into(), msg: format!("read-only audit({s},{e}) at epoch {cur} does not verify: {err:?}") })?;
            }
        }
    }
    // invalid requests
    for (s, e) in [(0, 0), (cur, cur), (cur + 1, cur), (1, 0), (0, cur + 1), (cur, cur + 1), (cur + 1, cur + 3), (u64::MAX, 0), (0, u64::MAX)] {
        ensure!(sys.dir.audit(s, e).await.is_err(), "audit-invalid-ok", "audit({s},{e}) at epoch {cur} was not refused");
    }
    Ok(())
}

pub fn check(case: &Case, ctx: &mut Ctx) -> R {
    let mut st = Stats::default();
    let r = (|| {
        both_cfgs!(run_cfg(case, &mut st));
        Ok(())
    })();
    ctx.count("audit_ranges", st.ranges);
    ctx.count("ranges_ending_before_latest_len>=2", st.inner);
    if st.epochs >= 6 {
        ctx.class("epochs>=6");
    }
    if st.inner >= 2 {
        ctx.nontrivial(fp(&case.hist));
        ctx.sample(case);
    }
    r
}

pub fn strategy(thorough: bool) -> impl Strategy<Value = Case> {
    let (max_e, max_ops) = if thorough { (20, 12) } else { (12, 8) };
    (
        mixed_hist_strategy(max_e, max_ops),
        prop_oneof![Just(CacheKind::None), Just(CacheKind::Default)],
        prop_oneof![Just(ParKind::Disabled), Just(ParKind::Default), Just(ParKind::Static(2))],
        prop_oneof![3 => Just(None), 1 => Just(Some(CacheKind::None)), 1 => Just(Some(CacheKind::Default))],
    )
        .prop_map(|(hist, cache, par, ro_cache)| Case { hist, cache, par, ro_cache })
}

pub fn run(eng: &mut Engine) {
    let thorough = eng.tier == Tier::Thorough;
    eng.assume("the root hashes handed to audit_verify are the model's roots, not the directory's");
    eng.prop_part(
        "audit",
        "generated histories; after every effective publish audit(cur-1,cur) and audit(0,cur); after the last publish ALL pairs 0<=s<e<=cur plus 9 invalid requests; non-trivial = history with >=2 audited ranges that end before the latest epoch and span >=2 epochs; distinct by history",
        eng.tier.pick(1000, 5_000),
        || strategy(thorough),
        check,
    );
    crate::props::readfaults::add_part(eng, crate::props::readfaults::Kind::Audit);
}
