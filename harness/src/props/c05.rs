//! C05 - tree membership and non-membership proofs are sound and complete.
use crate::dirx::*;
use crate::engine::*;
use crate::model::*;
use crate::prover::*;
use crate::{both_cfgs, ensure};
use akd::append_only_zks::InsertMode;
use akd::storage::memory::AsyncInMemoryDatabase;
use akd::storage::StorageManager;
use akd::verify::base::verif_hooks as vh;
use akd::{Azks, AzksElement, AzksValue, MembershipProof, NodeLabel, NonMembershipProof};
use proptest::prelude::*;
use serde::{Deserialize, Serialize};
use std::collections::BTreeMap;

#[derive(Serialize, Deserialize, Clone, Debug)]
pub enum Tail {
    Same,
    Zeros,
    Ones,
    Rand(#[serde(with = "crate::gen::hexvec")] Vec<u8>),
}
#[derive(Serialize, Deserialize, Clone, Debug)]
pub struct Derived {
    pub base: u16,
    pub pos: u16,
    pub tail: Tail,
}
#[derive(Serialize, Deserialize, Clone, Debug)]
pub struct LeafSet {
    #[serde(with = "crate::gen::hexvecs")]
    pub bases: Vec<Vec<u8>>,
    pub derived: Vec<Derived>,
    pub epochs: u8,
    pub assign: Vec<u16>,
}
#[derive(Serialize, Deserialize, Clone, Debug)]
pub struct Case {
    pub set: LeafSet,
    /// bit positions flipped in every member to obtain non-member queries
    pub flips: Vec<u16>,
    #[serde(with = "crate::gen::hexvecs")]
    pub randq: Vec<Vec<u8>>,
    pub muts: Vec<u16>,
}

pub fn arr32(v: &[u8]) -> [u8; 32] {
    let mut a = [0u8; 32];
    let n = v.len().min(32);
    a[..n].copy_from_slice(&v[..n]);
    a
}
pub fn flip(a: &[u8; 32], pos: usize) -> [u8; 32] {
    let mut b = *a;
    b[pos / 8] ^= 1 << (7 - pos % 8);
    b
}
impl LeafSet {
    /// leaf label -> (value, insertion epoch)
    pub fn leaves(&self) -> BTreeMap<[u8; 32], (D, u64)> {
        let mut labels: Vec<[u8; 32]> = vec![];
        for b in &self.bases {
            let a = arr32(b);
            if !labels.contains(&a) {
                labels.push(a);
            }
        }
        let nb = labels.len();
        for d in &self.derived {
            let base = labels[sel(d.base, nb)];
            let pos = (d.pos as usize) % 256;
            let mut out = flip(&base, pos);
            for i in pos + 1..256 {
                let bitv = match &d.tail {
                    Tail::Same => bit(&base, i as u32),
                    Tail::Zeros => false,
                    Tail::Ones => true,
                    Tail::Rand(r) => !r.is_empty() && (r[(i / 8) % r.len()] >> (7 - i % 8)) & 1 == 1,
                };
                if bitv != bit(&out, i as u32) {
                    out = flip(&out, i);
                }
            }
            if !labels.contains(&out) {
                labels.push(out);
            }
        }
        let ne = self.epochs.clamp(1, 3) as u64;
        labels
            .into_iter()
            .enumerate()
            .map(|(i, l)| {
                let ep = if self.assign.is_empty() { 1 } else { 1 + (self.assign[i % self.assign.len()] as u64) % ne };
                (l, (*blake3::hash(&l).as_bytes(), ep))
            })
            .collect()
    }
}

/// build the real tree (one batch_insert_nodes per epoch) over a fresh in-memory database
pub async fn build_tree<TC: Tcfg>(leaves: &BTreeMap<[u8; 32], (D, u64)>, n_epochs: u64) -> R<(StorageManager<AsyncInMemoryDatabase>, Azks)> {
    let st = StorageManager::new_no_cache(AsyncInMemoryDatabase::new());
    let mut azks = Azks::new::<TC, _>(&st).await.map_err(akd_err("azks-new", "Azks::new"))?;
    for e in 1..=n_epochs {
        let elems: Vec<AzksElement> = leaves.iter().filter(|(_, (_, ep))| *ep == e).map(|(l, (v, _))| AzksElement { label: NodeLabel::new(*l, 256), value: AzksValue(*v) }).collect();
        azks.batch_insert_nodes::<TC, _>(&st, elems, InsertMode::Directory, ParKind::Disabled.cfg()).await.map_err(akd_err("insert-err", "batch_insert_nodes"))?;
    }
    Ok((st, azks))
}

pub struct Oracle<'a> {
    pub c: Cfg,
    pub leaves: &'a BTreeMap<[u8; 32], (D, u64)>,
    pub tree: MTree,
    pub nodes: std::collections::HashSet<(u32, [u8; 32], D)>,
    pub root: D,
}
impl<'a> Oracle<'a> {
    pub fn new(c: Cfg, leaves: &'a BTreeMap<[u8; 32], (D, u64)>) -> Self {
        let tree = model_tree(c, leaves);
        let nodes = true_nodes(&tree).into_iter().collect();
        let root = root_hash(c, &tree.root_val);
        Oracle { c, leaves, tree, nodes, root }
    }
    /// soundness of a membership statement
    pub fn membership<TC: Tcfg>(&self, p: &MembershipProof, what: &str) -> R<bool> {
        let ok = vh::verify_membership::<TC>(self.root, p).is_ok();
        if ok {
            ensure!(
                self.nodes.contains(&(p.label.label_len, p.label.label_val, p.hash_val.0)),
                "membership-unsound",
                "{what}: membership proof verifies for ({}, hash {}) which is not a node of the tree",
                p.label,
                hex::encode(p.hash_val.0)
            );
        }
        Ok(ok)
    }
    /// soundness of a non-membership statement
    pub fn nonmembership<TC: Tcfg>(&self, p: &NonMembershipProof, what: &str) -> R<bool> {
        let ok = vh::verify_nonmembership::<TC>(self.root, p).is_ok();
        if ok {
            ensure!(p.label.label_len == 256, "nonmembership-label-len", "{what}: harness bug, query label not 256 bits");
            ensure!(
                !self.leaves.contains_key(&p.label.label_val),
                "nonmembership-of-member",
                "{what}: non-membership proof verifies for MEMBER label {} (claimed longest prefix {})",
                p.label,
                p.longest_prefix
            );
            let deepest = deepest_prefix_node(&self.tree, &p.label.label_val);
            ensure!(
                (p.longest_prefix.label_len, p.longest_prefix.label_val) == deepest,
                "nonmembership-shallow-anchor",
                "{what}: non-membership proof for {} verifies with anchor {} but the deepest matching node has length {}",
                p.label,
                p.longest_prefix,
                deepest.0
            );
        }
        Ok(ok)
    }
}

#[derive(Default)]
pub struct Stats {
    pub candidates: u64,
    pub accepted: u64,
    pub shallow_deep: u64,
    pub max_depth: usize,
    pub queries: u64,
}

async fn run_cfg<TC: Tcfg>(case: &Case, st_: &mut Stats) -> R {
    let leaves = case.set.leaves();
    let n_epochs = case.set.epochs.clamp(1, 3) as u64;
    let (st, azks) = build_tree::<TC>(&leaves, n_epochs).await?;
    let or = Oracle::new(TC::CFG, &leaves);
    let real_root = azks.get_root_hash::<TC, _>(&st).await.map_err(akd_err("root-err", "get_root_hash"))?;
    ensure!(real_root == or.root, "tree-root-mismatch", "root hash of the inserted leaf set differs from the model trie");
    let tree = Tree { st: &st, epoch: azks.latest_epoch };
    let older = Tree { st: &st, epoch: azks.latest_epoch.saturating_sub(1) };
    let members: Vec<[u8; 32]> = leaves.keys().cloned().collect();
    let mut queries: Vec<[u8; 32]> = members.clone();
    for m in &members {
        for f in &case.flips {
            queries.push(flip(m, *f as usize % 256));
        }
    }
    for r in &case.randq {
        queries.push(arr32(r));
    }
    queries.sort();
    queries.dedup();
    let mut mi = 0usize;
    let mut next_mut = |n: usize| -> usize {
        let s = if case.muts.is_empty() { 0 } else { case.muts[mi % case.muts.len()] };
        mi += 1;
        sel(s, n.max(1))
    };
    for q in &queries {
        st_.queries += 1;
        let ql = NodeLabel::new(*q, 256);
        let member = leaves.get(q);
        let what = format!("query {} (member={})", hex::encode(q), member.is_some());
        // --- honest proofs produced by akd
        let hm = azks.get_membership_proof::<TC, _>(&st, ql).await.map_err(akd_err("membership-gen-err", &what))?;
        st_.candidates += 1;
        let ok = or.membership::<TC>(&hm, &what)?;
        if let Some((v, ep)) = member {
            let exp = leaf_with_epoch(TC::CFG, v, *ep);
            ensure!(ok && hm.label == ql && hm.hash_val.0 == exp, "membership-incomplete", "{what}: honest membership proof verifies={ok}, label {}, hash {} (expected leaf hash {})", hm.label, hex::encode(hm.hash_val.0), hex::encode(exp));
        } else {
            ensure!(hm.label != ql, "membership-of-nonmember", "{what}: server produced a membership proof carrying a non-member label");
        }
        match azks.get_non_membership_proof::<TC, _>(&st, ql).await {
            Ok(hn) => {
                st_.candidates += 1;
                let ok = or.nonmembership::<TC>(&hn, &format!("{what} honest generator"))?;
                if member.is_none() {
                    ensure!(ok, "nonmembership-incomplete", "{what}: honest non-membership proof for a non-member does not verify");
                }
            }
            Err(e) => ensure!(member.is_some(), "nonmembership-gen-err", "{what}: server cannot produce a non-membership proof: {e:?}"),
        }
        // --- prover: every ancestor as anchor, every node on the path as a membership statement
        let path = tree.path(ql).await;
        st_.max_depth = st_.max_depth.max(path.len());
        for i in 0..path.len() {
            let mp = tree.membership::<TC>(&path, i).await;
            st_.candidates += 1;
            let ok = or.membership::<TC>(&mp, &format!("{what} path node {i}"))?;
            ensure!(ok, "prover-membership-rejected", "{what}: membership proof assembled from real nodes for path node {i} ({}) does not verify (prover or tree inconsistent)", path[i].label);
            let np = tree.nonmembership_at::<TC>(&path, i, ql).await;
            st_.candidates += 1;
            let deep = path.len() >= 3 && i + 1 < path.len();
            if deep {
                st_.shallow_deep += 1;
            }
            if or.nonmembership::<TC>(&np, &format!("{what} anchored at path node {i}/{}", path.len() - 1))? {
                st_.accepted += 1;
            }
        }
        // --- mutations of real material
        let deepest = path.len() - 1;
        let base_m = tree.membership::<TC>(&path, deepest).await;
        let anchor = if member.is_some() && deepest > 0 { deepest - 1 } else { deepest };
        let base_n = tree.nonmembership_at::<TC>(&path, anchor, ql).await;
        let mut cands_m: Vec<(String, MembershipProof)> = vec![];
        let mut cands_n: Vec<(String, NonMembershipProof)> = vec![];
        // interior / other node presented as a statement about q
        let mut m = base_m.clone();
        m.label = ql;
        cands_m.push(("label replaced by query".into(), m));
        if let Some((v, ep)) = member {
            for de in [ep.wrapping_sub(1), ep + 1] {
                let mut m = base_m.clone();
                m.hash_val = AzksValue(leaf_with_epoch(TC::CFG, v, de));
                cands_m.push((format!("leaf hash re-dated to epoch {de}"), m));
            }
            let mut m = base_m.clone();
            m.hash_val = AzksValue(*v);
            cands_m.push(("leaf hash without epoch".into(), m));
        }
        if !base_m.sibling_proofs.is_empty() {
            let k = next_mut(base_m.sibling_proofs.len());
            let mut m = base_m.clone();
            m.sibling_proofs[k].direction = m.sibling_proofs[k].direction.other();
            cands_m.push((format!("direction flipped at level {k}"), m));
            let mut m = base_m.clone();
            let other = &members[next_mut(members.len())];
            m.sibling_proofs[k].siblings[0].value = AzksValue(leaf_with_epoch(TC::CFG, &leaves[other].0, leaves[other].1));
            cands_m.push((format!("sibling hash replaced at level {k}"), m));
            let mut m = base_m.clone();
            m.sibling_proofs[k].siblings[0].label = NodeLabel::new(*other, 256);
            cands_m.push((format!("sibling label replaced at level {k}"), m));
            let mut m = base_m.clone();
            m.sibling_proofs.remove(k);
            cands_m.push((format!("level {k} dropped"), m));
            let mut m = base_m.clone();
            m.sibling_proofs.reverse();
            cands_m.push(("sibling order reversed".into(), m));
            let mut m = base_m.clone();
            m.sibling_proofs[k].label = m.sibling_proofs[k].label.get_prefix(m.sibling_proofs[k].label.label_len.saturating_sub(1));
            cands_m.push((format!("ancestor label shortened at level {k}"), m));
        }
        // material from the previous epoch's tree
        if azks.latest_epoch >= 2 {
            let opath = older.path(ql).await;
            for i in 0..opath.len() {
                cands_m.push((format!("membership of path node {i} from the previous epoch's tree"), older.membership::<TC>(&opath, i).await));
                cands_n.push((format!("non-membership anchored at node {i} of the previous epoch's tree"), older.nonmembership_at::<TC>(&opath, i, ql).await));
            }
        }
        let mut n = base_n.clone();
        n.longest_prefix_children.swap(0, 1);
        cands_n.push(("children swapped".into(), n));
        if path.len() >= 2 {
            let j = next_mut(path.len());
            let mut n = base_n.clone();
            n.longest_prefix = path[j].label;
            cands_n.push((format!("longest_prefix replaced by path node {j}'s label"), n.clone()));
            n.longest_prefix_membership_proof = tree.membership::<TC>(&path, j).await;
            cands_n.push((format!("longest_prefix and its membership proof from path node {j}, children from node {anchor}"), n));
        }
        // the proof of a neighbouring non-member re-labelled with a member below the same anchor
        let other = members[next_mut(members.len())];
        let mut n = base_n.clone();
        n.label = NodeLabel::new(other, 256);
        cands_n.push((format!("label replaced by member {}", hex::encode(other)), n));
        let mut n = base_n.clone();
        n.longest_prefix_children[0].value = AzksValue([7u8; 32]);
        cands_n.push(("left child hash altered".into(), n));
        let mut n = base_n.clone();
        n.longest_prefix_children[1].label = ql;
        cands_n.push(("right child label replaced by the query".into(), n));
        let mut n = base_n.clone();
        n.longest_prefix_children[0].label = TC::empty_label();
        cands_n.push(("left child label replaced by the empty label".into(), n));
        for (d, m) in cands_m {
            st_.candidates += 1;
            or.membership::<TC>(&m, &format!("{what}: {d}"))?;
        }
        for (d, n) in cands_n {
            st_.candidates += 1;
            or.nonmembership::<TC>(&n, &format!("{what}: {d}"))?;
        }
    }
    Ok(())
}

pub fn check(case: &Case, ctx: &mut Ctx) -> R {
    let mut st = Stats::default();
    let r = (|| {
        both_cfgs!(run_cfg(case, &mut st));
        Ok(())
    })();
    ctx.count("candidate_proofs", st.candidates);
    ctx.count("queries", st.queries);
    ctx.count("shallow_anchor_on_depth>=3_path", st.shallow_deep);
    ctx.count("prover_nonmembership_accepted(honest anchors)", st.accepted);
    if st.max_depth >= 5 {
        ctx.class("path_depth>=5");
    }
    if case.set.epochs >= 2 {
        ctx.class("multi_epoch_tree");
    }
    if st.shallow_deep > 0 {
        ctx.nontrivial(fp_json(&case.set));
        ctx.sample(case);
    }
    r
}

pub fn leafset_strategy(max_derived: usize) -> impl Strategy<Value = LeafSet> {
    (
        proptest::collection::vec(proptest::collection::vec(any::<u8>(), 32..=32), 1..=3),
        proptest::collection::vec(
            (
                any::<u16>(),
                prop_oneof![3 => 0u16..256, 1 => prop_oneof![Just(0u16), Just(1), Just(7), Just(8), Just(254), Just(255)]],
                prop_oneof![Just(Tail::Same), Just(Tail::Zeros), Just(Tail::Ones), proptest::collection::vec(any::<u8>(), 32..=32).prop_map(Tail::Rand)],
            )
                .prop_map(|(base, pos, tail)| Derived { base, pos, tail }),
            0..=max_derived,
        ),
        1u8..=3,
        proptest::collection::vec(any::<u16>(), 1..4),
    )
        .prop_map(|(bases, derived, epochs, assign)| LeafSet { bases, derived, epochs, assign })
}

pub fn strategy(thorough: bool) -> impl Strategy<Value = Case> {
    let (max_derived, max_flips) = if thorough { (60, 24) } else { (21, 6) };
    (
        leafset_strategy(max_derived),
        proptest::collection::vec(prop_oneof![2 => 0u16..256, 1 => prop_oneof![Just(0u16), Just(255)]], 0..=max_flips),
        proptest::collection::vec(proptest::collection::vec(any::<u8>(), 32..=32), 0..3),
        proptest::collection::vec(any::<u16>(), 1..6),
    )
        .prop_map(|(set, flips, randq, muts)| Case { set, flips, randq, muts })
}

pub fn run(eng: &mut Engine) {
    let thorough = eng.tier == Tier::Thorough;
    eng.assume("ground truth is the generated leaf set and a from-scratch model trie; adversary = structural recombination of real tree material (no hash collisions)");
    eng.assume("empty leaf set excluded (no API path verifies a proof against the epoch-0 tree)");
    eng.prop_part(
        "sets",
        "generated leaf sets (1-3 random bases + copies with bit p flipped and same/zero/one/random tails, inserted over 1-3 epochs); queries = every member, every member with generated bits flipped, random labels; candidates = akd's honest proofs, non-membership anchored at EVERY path node, membership of every path node, 15+ mutations, previous-epoch material; oracle = soundness + completeness vs the set; non-trivial = a mis-anchored (shallow) candidate on a path of depth >=3 was evaluated; distinct by leaf set",
        eng.tier.pick(20_000, 120_000),
        || strategy(thorough),
        check,
    );
    if thorough {
        // sweep every flip position for small sets
        eng.prop_part(
            "flip_sweep",
            "small leaf sets with ALL 256 bit positions of every member flipped as non-member queries",
            400,
            || (leafset_strategy(6), proptest::collection::vec(any::<u16>(), 1..4)).prop_map(|(set, muts)| Case { set, flips: (0..256).collect(), randq: vec![], muts }),
            check,
        );
    }
    eng.fuzz_part_from_env("fuzz_c05");
}
