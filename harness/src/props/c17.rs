//! C17 - node-label operations agree with their bit-string meaning.
use crate::engine::*;
use crate::ensure;
use crate::model::{Exp, Wa};
use akd::append_only_zks::verif_hooks as hk;
use akd::{AzksElement, AzksValue, Configuration, NodeLabel, PrefixOrdering};
use proptest::prelude::*;
use serde::{Deserialize, Serialize};
use serde_json::{json, Value};
use std::cmp::Ordering;

type Bits = Vec<bool>;

pub fn to_label(b: &[bool]) -> NodeLabel {
    let mut v = [0u8; 32];
    for (i, x) in b.iter().enumerate() {
        if *x {
            v[i / 8] |= 1 << (7 - i % 8);
        }
    }
    NodeLabel::new(v, b.len() as u32)
}
fn small(len: u32, val: u32) -> Bits {
    (0..len).map(|i| (val >> (len - 1 - i)) & 1 == 1).collect()
}
fn ref_is_prefix(a: &[bool], b: &[bool]) -> bool {
    a.len() <= b.len() && a[..] == b[..a.len()]
}
fn ref_lcp(a: &[bool], b: &[bool]) -> Bits {
    a.iter().zip(b.iter()).take_while(|(x, y)| x == y).map(|(x, _)| *x).collect()
}
fn ref_ordering(a: &[bool], b: &[bool]) -> PrefixOrdering {
    if a.len() < b.len() && ref_is_prefix(a, b) {
        if b[a.len()] {
            PrefixOrdering::WithOne
        } else {
            PrefixOrdering::WithZero
        }
    } else {
        PrefixOrdering::Invalid
    }
}
fn ref_cmp(a: &[bool], b: &[bool]) -> Ordering {
    a.len().cmp(&b.len()).then_with(|| a.cmp(b))
}

/// all pairwise operations on (a, b) against the bit-string reference
fn check_pair(a: &[bool], b: &[bool]) -> R {
    let (la, lb) = (to_label(a), to_label(b));
    ensure!(la.is_prefix_of(&lb) == ref_is_prefix(a, b), "is_prefix_of", "is_prefix_of({la}, {lb}) = {} but bit strings say {}", la.is_prefix_of(&lb), ref_is_prefix(a, b));
    let exp = to_label(&ref_lcp(a, b));
    let w = la.get_longest_common_prefix::<Wa>(lb);
    let x = la.get_longest_common_prefix::<Exp>(lb);
    ensure!(w == exp && x == exp, "lcp", "lcp({la}, {lb}) = {w} / {x}, expected {exp}");
    let o = la.get_prefix_ordering(lb);
    ensure!(o == ref_ordering(a, b), "prefix_ordering", "get_prefix_ordering({la}, {lb}) = {o:?}, expected {:?}", ref_ordering(a, b));
    ensure!(la.cmp(&lb) == ref_cmp(a, b), "ord", "cmp({la}, {lb}) = {:?}, expected {:?}", la.cmp(&lb), ref_cmp(a, b));
    ensure!((la == lb) == (a == b), "eq", "eq({la}, {lb}) = {} but bit strings equal = {}", la == lb, a == b);
    Ok(())
}
fn check_prefixes(a: &[bool]) -> R {
    let la = to_label(a);
    for len in 0..=a.len() {
        let p = la.get_prefix(len as u32);
        let exp = to_label(&a[..len]);
        ensure!(p == exp, "get_prefix", "get_prefix({la}, {len}) = {p}, expected {exp}");
    }
    for len in [256u32, 257, 300, u32::MAX] {
        ensure!(la.get_prefix(len) == la, "get_prefix", "get_prefix({la}, {len}) must return the label itself");
    }
    Ok(())
}

// ---------------------------------------------------------------- generated long labels
#[derive(Serialize, Deserialize, Clone, Debug)]
pub enum Pat {
    Ones,
    Zeros,
    Alt,
    Rand(Vec<u8>),
    Single(u16),
}
fn pat_bits(p: &Pat, n: usize) -> Bits {
    (0..n)
        .map(|i| match p {
            Pat::Ones => true,
            Pat::Zeros => false,
            Pat::Alt => i % 2 == 0,
            Pat::Rand(s) => s.is_empty() || (s[(i / 8) % s.len()] >> (7 - i % 8)) & 1 == 1,
            Pat::Single(k) => i == *k as usize % n.max(1),
        })
        .collect()
}
fn pat_strategy() -> impl Strategy<Value = Pat> {
    prop_oneof![
        Just(Pat::Ones),
        Just(Pat::Zeros),
        Just(Pat::Alt),
        proptest::collection::vec(any::<u8>(), 32..=32).prop_map(Pat::Rand),
        boundary_len().prop_map(Pat::Single),
    ]
}
/// lengths concentrated around byte boundaries and the extremes
fn boundary_len() -> impl Strategy<Value = u16> {
    prop_oneof![
        3 => (0u16..=32, 0u16..3).prop_map(|(k, d)| (k * 8 + d).saturating_sub(1).min(256)),
        2 => 0u16..=256,
        1 => prop_oneof![Just(0u16), Just(1), Just(255), Just(256)],
    ]
}
#[derive(Serialize, Deserialize, Clone, Debug)]
pub struct PairCase {
    pub pa: Pat,
    pub len_a: u16,
    pub shared: u16,
    pub len_b: u16,
    pub tail: Pat,
}
fn pair_bits(c: &PairCase) -> (Bits, Bits) {
    let a = pat_bits(&c.pa, c.len_a as usize);
    let p = (c.shared as usize).min(a.len()).min(c.len_b as usize);
    let mut b: Bits = a[..p].to_vec();
    if (c.len_b as usize) > p {
        // first bit after the shared prefix differs from a's (when a has one)
        let nb = if a.len() > p { !a[p] } else { pat_bits(&c.tail, 1)[0] };
        b.push(nb);
        let rest = pat_bits(&c.tail, c.len_b as usize - p - 1);
        b.extend(rest);
    }
    (a, b)
}
pub fn check_pair_case(c: &PairCase, ctx: &mut Ctx) -> R {
    let (a, b) = pair_bits(c);
    if a.len() % 8 != 0 && b.len() % 8 != 0 && a.len() > 8 {
        ctx.class("both_unaligned");
    }
    let p = ref_lcp(&a, &b).len();
    if p >= 1 && p < a.len().min(b.len()) {
        ctx.class("diverge_inside");
    }
    if p % 8 == 0 || p % 8 == 7 || p % 8 == 1 {
        ctx.class("lcp_at_byte_boundary");
    }
    if a.len() >= 9 && b.len() >= 9 && p >= 1 {
        ctx.nontrivial(fp(&(&a, &b)));
        ctx.sample(c);
    }
    check_pair(&a, &b)?;
    check_pair(&b, &a)?;
    check_pair(&a, &a)?;
    check_prefixes(&a)?;
    check_prefixes(&b)
}

// ---------------------------------------------------------------- sets
fn elem(b: &[bool], tag: u8) -> AzksElement {
    AzksElement { label: to_label(b), value: AzksValue([tag; 32]) }
}
fn sort_elems(mut v: Vec<AzksElement>) -> Vec<(NodeLabel, AzksValue)> {
    v.sort_by(|a, b| a.label.cmp(&b.label).then(a.value.cmp(&b.value)));
    v.into_iter().map(|e| (e.label, e.value)).collect()
}
/// set operations for a set whose elements all extend `prefix` (documented precondition)
fn check_set(set: &[Bits], prefix: &[bool], probes: &[Bits]) -> R {
    let elems: Vec<AzksElement> = set.iter().enumerate().map(|(i, b)| elem(b, i as u8)).collect();
    let pl = to_label(prefix);
    let q = prefix.len();
    let exp_left: Vec<AzksElement> = elems.iter().zip(set).filter(|(_, b)| b.len() > q && !b[q]).map(|(e, _)| *e).collect();
    let exp_right: Vec<AzksElement> = elems.iter().zip(set).filter(|(_, b)| b.len() > q && b[q]).map(|(e, _)| *e).collect();
    for sorted in [true, false] {
        let (l, r) = hk::partition(elems.clone(), sorted, pl);
        ensure!(
            sort_elems(l.clone()) == sort_elems(exp_left.clone()) && sort_elems(r.clone()) == sort_elems(exp_right.clone()),
            "partition",
            "partition(sorted={sorted}) of {:?} around {pl}: left {:?} right {:?}, expected left {:?} right {:?}",
            elems.iter().map(|e| e.label.to_string()).collect::<Vec<_>>(),
            l.iter().map(|e| e.label.to_string()).collect::<Vec<_>>(),
            r.iter().map(|e| e.label.to_string()).collect::<Vec<_>>(),
            exp_left.iter().map(|e| e.label.to_string()).collect::<Vec<_>>(),
            exp_right.iter().map(|e| e.label.to_string()).collect::<Vec<_>>()
        );
    }
    // set LCP
    if !set.is_empty() {
        let mut lcp: Bits = set[0].clone();
        for b in &set[1..] {
            lcp = ref_lcp(&lcp, b);
        }
        let exp = to_label(&lcp);
        for sorted in [true, false] {
            let (w, x) = (hk::set_lcp::<Wa>(elems.clone(), sorted), hk::set_lcp::<Exp>(elems.clone(), sorted));
            ensure!(w == exp && x == exp, "set_lcp", "set lcp (sorted={sorted}) of {:?} = {w} / {x}, expected {exp}", elems.iter().map(|e| e.label.to_string()).collect::<Vec<_>>());
        }
    } else {
        for sorted in [true, false] {
            ensure!(hk::set_lcp::<Wa>(vec![], sorted) == Wa::empty_label() && hk::set_lcp::<Exp>(vec![], sorted) == Exp::empty_label(), "set_lcp_empty", "lcp of the empty set must be the empty label");
        }
    }
    // contains_prefix
    for p in probes {
        let exp = set.iter().any(|b| ref_is_prefix(p, b));
        for sorted in [true, false] {
            let got = hk::contains_prefix(elems.clone(), sorted, &to_label(p));
            ensure!(got == exp, "contains_prefix", "contains_prefix(sorted={sorted}) of {:?} for {} = {got}, expected {exp}", elems.iter().map(|e| e.label.to_string()).collect::<Vec<_>>(), to_label(p));
        }
    }
    Ok(())
}

#[derive(Serialize, Deserialize, Clone, Debug)]
pub struct SetCase {
    pub common: Pat,
    pub common_len: u16,
    /// element length (all equal when `mixed` is false)
    pub len: u16,
    pub tails: Vec<Pat>,
    pub mixed: Vec<u16>,
    pub cut: u16,
    pub probes: Vec<(u16, u16)>,
}
fn set_from_case(c: &SetCase) -> (Vec<Bits>, Bits, Vec<Bits>) {
    let len = (c.len as usize).clamp(1, 256);
    let cl = (c.common_len as usize).min(len);
    let common = pat_bits(&c.common, cl);
    let mut set: Vec<Bits> = vec![];
    for (i, t) in c.tails.iter().enumerate() {
        let l = if c.mixed.is_empty() { len } else { (cl + 1 + sel(c.mixed[i % c.mixed.len()], 256 - cl.min(255))).min(256).max(cl) };
        let mut b = common.clone();
        b.extend(pat_bits(t, l.saturating_sub(cl)));
        if !set.contains(&b) {
            set.push(b);
        }
    }
    let mut lcp: Bits = set.first().cloned().unwrap_or_default();
    for b in set.iter().skip(1) {
        lcp = ref_lcp(&lcp, b);
    }
    // the partition prefix must be a common prefix of every element
    let q = sel(c.cut, lcp.len() + 1);
    let q = if c.cut > 40000 { lcp.len() } else { q };
    let prefix = lcp[..q].to_vec();
    let mut probes = vec![prefix.clone(), lcp.clone()];
    for (which, l) in &c.probes {
        if set.is_empty() {
            break;
        }
        let base = &set[sel(*which, set.len())];
        let l = sel(*l, base.len() + 1);
        let mut p = base[..l].to_vec();
        probes.push(p.clone());
        if !p.is_empty() {
            let k = p.len() - 1;
            p[k] = !p[k];
            probes.push(p);
        }
    }
    (set, prefix, probes)
}
pub fn check_set_case(c: &SetCase, ctx: &mut Ctx) -> R {
    let (set, prefix, probes) = set_from_case(c);
    let equal_len = set.iter().all(|b| b.len() == set[0].len());
    if equal_len {
        ctx.class("equal_length(binary_searchable)");
        if hk::is_binary_searchable(set.iter().map(|b| elem(b, 0)).collect()) {
            ctx.class("classified_binary_searchable_by_From");
        }
    } else {
        ctx.class("mixed_length(unsorted_only)");
    }
    if set.len() >= 3 && !prefix.is_empty() && equal_len {
        ctx.nontrivial(fp(&(&set, &prefix)));
        ctx.sample(c);
    }
    check_set(&set, &prefix, &probes)
}

pub fn pair_case_strategy() -> impl Strategy<Value = PairCase> {
    (pat_strategy(), boundary_len(), boundary_len(), boundary_len(), pat_strategy()).prop_map(|(pa, len_a, shared, len_b, tail)| PairCase { pa, len_a, shared, len_b, tail })
}
pub fn set_case_strategy() -> impl Strategy<Value = SetCase> {
    (
        pat_strategy(),
        boundary_len(),
        prop_oneof![2 => Just(256u16), 1 => boundary_len()],
        proptest::collection::vec(pat_strategy(), 1..12),
        prop_oneof![3 => Just(vec![]), 1 => proptest::collection::vec(any::<u16>(), 1..4)],
        any::<u16>(),
        proptest::collection::vec((any::<u16>(), any::<u16>()), 0..4),
    )
        .prop_map(|(common, common_len, len, tails, mixed, cut, probes)| SetCase { common, common_len, len, tails, mixed, cut, probes })
}

pub fn run(eng: &mut Engine) {
    eng.assume("domain: normalised labels (bits beyond label_len are zero - what VRF output and get_prefix produce); the two empty_label() constants only as documented special values");
    eng.assume("set operations are exercised with the documented precondition: the partition prefix is a common prefix of every element");
    // (a) exhaustive: all ordered pairs of labels of length 0..=10
    let max_len = 10u32;
    let all: Vec<(u32, u32)> = (0..=max_len).flat_map(|l| (0..(1u32 << l)).map(move |v| (l, v))).collect();
    let all_ref = &all;
    eng.enum_part(
        "pairs<=10bits",
        "EXHAUSTIVE: all ordered pairs of the 2047 normalised labels of length 0..10 for is_prefix_of / lcp (both configurations) / get_prefix_ordering / Ord / Eq, and get_prefix at every length; non-trivial = both labels non-empty and different",
        true,
        all.clone(),
        |&(l, v), ctx| {
            let a = small(l, v);
            check_prefixes(&a).map_err(|f| (json!({"a": [l, v]}), f))?;
            for &(l2, v2) in all_ref.iter() {
                let b = small(l2, v2);
                ctx.evals += 1;
                if l > 0 && l2 > 0 && (l, v) != (l2, v2) {
                    ctx.nontrivial(((l as u64) << 48) | ((v as u64) << 32) | ((l2 as u64) << 16) | v2 as u64);
                }
                check_pair(&a, &b).map_err(|f| (json!({"a": [l, v], "b": [l2, v2]}), f))?;
            }
            if (l, v) == (10, 0b1011001110) {
                ctx.sample(&json!({"a": to_label(&a).to_string(), "paired_with": "all 2047 labels of length 0..10"}));
            }
            Ok(())
        },
        |v: &Value, _ctx| {
            let g = |k: &str| v.get(k).and_then(|x| Some((x[0].as_u64()? as u32, x[1].as_u64()? as u32)));
            let a = g("a").map(|(l, x)| small(l, x)).unwrap_or_default();
            check_prefixes(&a)?;
            if let Some((l2, v2)) = g("b") {
                check_pair(&a, &small(l2, v2))?;
            }
            Ok(())
        },
    );
    // special values
    eng.enum_part(
        "empty_label",
        "documented special values: lcp with the configuration's empty label returns the empty label; the empty label (length 0) is a prefix of every label",
        true,
        all.clone(),
        |&(l, v), ctx| {
            ctx.evals += 1;
            ctx.nontrivial(((l as u64) << 32) | v as u64);
            let a = to_label(&small(l, v));
            let r = (|| {
                ensure!(a.get_longest_common_prefix::<Wa>(Wa::empty_label()) == Wa::empty_label() && Wa::empty_label().get_longest_common_prefix::<Wa>(a) == Wa::empty_label(), "lcp_empty_label", "WhatsAppV1: lcp({a}, empty_label) is not the empty label");
                ensure!(a.get_longest_common_prefix::<Exp>(Exp::empty_label()) == Exp::empty_label() && Exp::empty_label().get_longest_common_prefix::<Exp>(a) == Exp::empty_label(), "lcp_empty_label", "Experimental: lcp({a}, empty_label) is not the empty label");
                ensure!(Wa::empty_label().is_prefix_of(&a) && Exp::empty_label().is_prefix_of(&a), "empty_label_prefix", "empty label must be a prefix of {a}");
                Ok(())
            })();
            r.map_err(|f| (json!({"a": [l, v]}), f))
        },
        |_v, _c| Ok(()),
    );
    // (c1) exhaustive small sets: equal-length labels of length 1..=4, all subsets of size <= 3
    let mut small_sets: Vec<(u32, Vec<u32>)> = vec![];
    for l in 1..=4u32 {
        let n = 1u32 << l;
        for a in 0..n {
            small_sets.push((l, vec![a]));
            for b in a + 1..n {
                small_sets.push((l, vec![a, b]));
                for c in b + 1..n {
                    small_sets.push((l, vec![a, b, c]));
                }
            }
        }
    }
    let run_small = |l: u32, vs: &[u32], ctx: &mut Ctx| -> Result<(), (Value, Fail)> {
        let set: Vec<Bits> = vs.iter().map(|v| small(l, *v)).collect();
        let mut lcp = set[0].clone();
        for b in &set[1..] {
            lcp = ref_lcp(&lcp, b);
        }
        let probes: Vec<Bits> = (0..=l).flat_map(|pl| (0..(1u32 << pl)).map(move |pv| small(pl, pv))).collect();
        for q in 0..=lcp.len() {
            ctx.evals += 1;
            if set.len() >= 2 {
                ctx.nontrivial(fp(&(l, vs, q)));
            }
            // both element orders: the hooks receive the vector as given
            let mut rev = set.clone();
            rev.reverse();
            check_set(&set, &lcp[..q], &probes).map_err(|f| (json!({"len": l, "set": vs, "q": q}), f))?;
            check_set(&rev, &lcp[..q], &probes).map_err(|f| (json!({"len": l, "set": vs, "q": q, "reversed": true}), f))?;
        }
        Ok(())
    };
    eng.enum_part(
        "small_sets",
        "EXHAUSTIVE: all sets of 1-3 distinct equal-length labels of length 1..4, every common prefix as partition point, all 31 labels of length<=4 as contains_prefix probes, evaluated as BinarySearchable and as Unsorted (hooks) against the bit-string reference; non-trivial = set of >=2 labels",
        true,
        small_sets,
        |(l, vs), ctx| {
            if *l == 4 && vs == &vec![3, 9, 12] {
                ctx.sample(&json!({"len": l, "set": vs}));
            }
            run_small(*l, vs, ctx)
        },
        |v: &Value, ctx| {
            let l = v["len"].as_u64().unwrap_or(1) as u32;
            let vs: Vec<u32> = v["set"].as_array().map(|a| a.iter().map(|x| x.as_u64().unwrap_or(0) as u32).collect()).unwrap_or_default();
            run_small(l, &vs, ctx).map_err(|(_, f)| f)
        },
    );
    // (b) generated long labels
    eng.prop_part(
        "long_pairs",
        "generated label pairs of every length 0..256 (lengths concentrated at 8k-1/8k/8k+1, 0,1,255,256) with all-ones / all-zeros / alternating / single-bit / random patterns sharing a prefix of generated length; all pairwise operations both ways + get_prefix at every length; non-trivial = both labels longer than 8 bits sharing >=1 bit; distinct by bit strings",
        eng.tier.pick(2_000_000, 20_000_000),
        pair_case_strategy,
        check_pair_case,
    );
    // (c2) generated sets
    eng.prop_part(
        "sets",
        "generated sets of up to 12 labels (equal length incl. 256 bits => BinarySearchable vs Unsorted; mixed lengths => Unsorted vs reference) sharing a generated common prefix; partition around a generated common prefix, set lcp, contains_prefix probes (prefixes of members and their last-bit flips); non-trivial = equal-length set of >=3 labels with non-empty partition prefix",
        eng.tier.pick(500_000, 6_000_000),
        set_case_strategy,
        check_set_case,
    );
    eng.fuzz_part_from_env("fuzz_c17");
}
