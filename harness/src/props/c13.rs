//! C13 - every answer names a published epoch hash and verifies against it, or errors.
use crate::dirx::*;
use crate::engine::*;
use crate::gen::*;
use crate::model::*;
use crate::sched::*;
use crate::vdb::*;
use crate::ensure;
use akd::storage::types::DbRecord;
use akd::storage::StorageManager;
use akd::AkdLabel;
use proptest::prelude::*;
use serde::{Deserialize, Serialize};
use std::sync::atomic::Ordering;

#[derive(Serialize, Deserialize, Clone, Debug, PartialEq, Eq)]
pub enum ROp {
    Lookup(u16),
    Batch(Vec<u16>),
    History(u16, HP),
    Audit(u16, u16),
    EpochHash,
    /// explicit flush of the instance's cache
    Flush,
    /// real-time pause in ms (lets short-lived cache entries expire)
    Pause(u8),
}
#[derive(Serialize, Deserialize, Clone, Copy, Debug, PartialEq, Eq)]
pub enum RInst {
    /// a clone of the writer's directory (shares cache and transaction)
    WriterClone,
    RoCached,
    RoUncached,
    /// a full Directory instance with its own cached manager
    DirCached,
}

/// what a reader observed
#[derive(Debug)]
pub enum Obs {
    Lookup(Vec<u8>, Result<(akd::LookupProof, akd::EpochHash), String>),
    Batch(Vec<Vec<u8>>, Result<(Vec<akd::LookupProof>, akd::EpochHash), String>),
    History(Vec<u8>, HP, Result<(akd::HistoryProof, akd::EpochHash), String>),
    Audit(u64, u64, Result<akd::AppendOnlyProof, String>),
    EpochHash(Result<akd::EpochHash, String>),
    Flushed,
    Paused,
}

pub struct World {
    pub m: Model,
    pub pk: Vec<u8>,
    pub labels: Vec<Vec<u8>>,
}

async fn do_op(rd: &dyn Reader, st: Option<&StorageManager<VDb>>, w: &World, op: &ROp) -> Obs {
    let lab = |s: &u16| w.labels[sel(*s, w.labels.len())].clone();
    let e = |r: akd::errors::AkdError| format!("{r:?}");
    match op {
        ROp::Lookup(s) => {
            let l = lab(s);
            Obs::Lookup(l.clone(), rd.r_lookup(AkdLabel(l)).await.map_err(e))
        }
        ROp::Batch(ss) => {
            let mut ls: Vec<Vec<u8>> = ss.iter().map(lab).collect();
            ls.sort();
            ls.dedup();
            let al: Vec<AkdLabel> = ls.iter().map(|l| AkdLabel(l.clone())).collect();
            Obs::Batch(ls, rd.r_batch_lookup(&al).await.map_err(e))
        }
        ROp::History(s, p) => {
            let l = lab(s);
            Obs::History(l.clone(), *p, rd.r_history(&AkdLabel(l), p.to()).await.map_err(e))
        }
        ROp::Audit(a, b) => {
            let top = w.m.epoch + 1;
            let (a, b) = (sel(*a, top as usize + 1) as u64, sel(*b, top as usize + 1) as u64);
            let (s, t) = (a.min(b), a.max(b));
            Obs::Audit(s, t, rd.r_audit(s, t).await.map_err(e))
        }
        ROp::EpochHash => Obs::EpochHash(rd.r_epoch_hash().await.map_err(e)),
        ROp::Flush => {
            if let Some(st) = st {
                st.flush_cache().await;
            }
            Obs::Flushed
        }
        ROp::Pause(ms) => {
            std::thread::sleep(std::time::Duration::from_millis((*ms).min(45) as u64));
            Obs::Paused
        }
    }
}

/// The oracle: an answer is an error, or names a published (epoch, root) and verifies to the model's state at that epoch.
/// `min_epoch`: lower bound for the epoch an answer may name (after a change signal).
pub async fn judge<TC: Tcfg>(w: &World, obs: &Obs, min_epoch: u64, what: &str) -> R<Option<u64>> {
    let m = &w.m;
    let eh_ok = |eh: &akd::EpochHash, kind: &str| -> R {
        ensure!(eh.0 <= m.epoch, "answer-unpublished-epoch", "{what}: {kind} names epoch {} but only {} epochs were published", eh.0, m.epoch);
        ensure!(eh.1 == m.roots[eh.0 as usize], "answer-wrong-root-for-epoch", "{what}: {kind} returns root {} labelled epoch {}, but the root published for that epoch is {} (it is the root of epoch {:?})", hex::encode(&eh.1[..6]), eh.0, hex::encode(&m.roots[eh.0 as usize][..6]), m.roots.iter().position(|r| *r == eh.1));
        ensure!(eh.0 >= min_epoch, "answer-older-than-signalled", "{what}: {kind} is answered from epoch {} although change polling had already signalled epoch {min_epoch}", eh.0);
        Ok(())
    };
    match obs {
        Obs::Lookup(l, Ok((p, eh))) => {
            eh_ok(eh, "lookup")?;
            let r = verify_lookup::<TC>(&w.pk, eh.1, eh.0, l, p.clone());
            let exp = expected_lookup(m, l, eh.0);
            ensure!(r.is_ok(), "answer-does-not-verify", "{what}: lookup proof of {} does not verify against the returned ({}, root): {:?}", hex::encode(l), eh.0, r.err());
            ensure!(r.as_ref().ok() == exp.as_ref(), "answer-wrong-result", "{what}: lookup of {} at epoch {} verifies to {r:?}, the model says {exp:?}", hex::encode(l), eh.0);
            Ok(Some(eh.0))
        }
        Obs::Batch(ls, Ok((ps, eh))) => {
            eh_ok(eh, "batch_lookup")?;
            ensure!(ps.len() == ls.len(), "answer-batch-len", "{what}: batch_lookup returned {} proofs for {} labels", ps.len(), ls.len());
            for (l, p) in ls.iter().zip(ps.iter()) {
                let r = verify_lookup::<TC>(&w.pk, eh.1, eh.0, l, p.clone());
                ensure!(r.is_ok() && r.as_ref().ok() == expected_lookup(m, l, eh.0).as_ref(), "answer-does-not-verify", "{what}: batch lookup proof of {} at epoch {} gives {r:?}", hex::encode(l), eh.0);
            }
            Ok(Some(eh.0))
        }
        Obs::History(l, p, Ok((hp, eh))) => {
            eh_ok(eh, "key_history")?;
            let r = verify_history::<TC>(&w.pk, eh.1, eh.0, l, hp.clone(), p.to(), false);
            ensure!(r.is_ok(), "answer-does-not-verify", "{what}: history proof of {} ({p:?}) does not verify against the returned ({}, root): {:?}", hex::encode(l), eh.0, r.err());
            ensure!(r.as_ref().ok() == Some(&expected_history(m, l, eh.0, *p)), "answer-wrong-result", "{what}: history of {} ({p:?}) at epoch {} verifies to {r:?}", hex::encode(l), eh.0);
            Ok(Some(eh.0))
        }
        Obs::Audit(s, t, Ok(ap)) => {
            ensure!(s < t && *t <= m.epoch, "answer-invalid-audit-range", "{what}: audit({s},{t}) was answered although only {} epochs exist", m.epoch);
            let r = akd::auditor::audit_verify::<TC>(m.roots[*s as usize..=*t as usize].to_vec(), ap.clone()).await;
            ensure!(r.is_ok(), "answer-does-not-verify", "{what}: audit({s},{t}) proof does not verify against the published roots: {:?}", r.err());
            Ok(None)
        }
        Obs::EpochHash(Ok(eh)) => {
            eh_ok(eh, "get_epoch_hash")?;
            Ok(Some(eh.0))
        }
        _ => Ok(None), // errors are acceptable answers
    }
}

// ------------------------------------------------------------------ part 1: lagging instances + change polling
#[derive(Serialize, Deserialize, Clone, Debug)]
pub struct LagCase {
    pub cfg: Cfg,
    pub hist: Hist,
    /// the reader instance is created (and warmed) after this batch
    pub created_after: u16,
    pub inst: RInst,
    pub warm: Vec<ROp>,
    pub ops: Vec<ROp>,
    pub poll: bool,
    pub post: Vec<ROp>,
    /// item lifetime of the reader's cache in ms (0 = default 30 s); with Pause ops this makes entries expire at different moments
    #[serde(default)]
    pub life_ms: u8,
}
#[derive(Default)]
pub struct LagStats {
    lag: u64,
    answers: u64,
    ok_answers: u64,
    signalled: u64,
}

fn reader_manager(vdb: &VDb, inst: RInst) -> StorageManager<VDb> {
    match inst {
        RInst::RoUncached => manager(vdb.clone(), CacheKind::None),
        _ => manager(vdb.clone(), CacheKind::Default),
    }
}

async fn lag_case<TC: Tcfg>(case: &LagCase, st: &mut LagStats) -> R {
    let key = key_bytes(case.hist.key);
    let (batches, _) = case.hist.resolve();
    let k0 = sel(case.created_after, batches.len() + 1);
    let vdb = VDb::new();
    let mut m = Model::new(TC::CFG, &key);
    let wst = manager(vdb.clone(), CacheKind::None);
    let wdir = new_dir::<TC, _>(wst.clone(), &key, ParKind::Disabled).await?;
    for (i, b) in batches[..k0].iter().enumerate() {
        publish_both::<TC, _>(&wdir, &mut m, b, i).await?;
    }
    let mut labels = case.hist.labels.clone();
    labels.sort();
    labels.dedup();
    // the reader instance
    let rst = if case.life_ms > 0 && case.inst != RInst::RoUncached { manager(vdb.clone(), CacheKind::Custom(case.life_ms.max(20) as u16, 0, 500)) } else { reader_manager(&vdb, case.inst) };
    let ro = new_ro::<TC, _>(rst.clone(), &key, ParKind::Disabled).await?;
    let full;
    let rd: &dyn Reader = if case.inst == RInst::DirCached {
        full = new_dir::<TC, _>(rst.clone(), &key, ParKind::Disabled).await?;
        &full
    } else {
        &ro
    };
    let e_created = m.epoch;
    {
        let w = World { m: model_clone::<TC>(&key, &batches[..k0]), pk: public_key(&key), labels: labels.clone() };
        for op in &case.warm {
            let obs = do_op(rd, Some(&rst), &w, op).await;
            st.answers += 1;
            judge::<TC>(&w, &obs, 0, &format!("warm-up {op:?} on a {:?} instance at epoch {e_created}", case.inst)).await?;
        }
    }
    // the writer moves on
    for (i, b) in batches[k0..].iter().enumerate() {
        publish_both::<TC, _>(&wdir, &mut m, b, k0 + i).await?;
    }
    let lag = m.epoch - e_created;
    st.lag = lag;
    let w = World { m, pk: public_key(&key), labels };
    for op in &case.ops {
        let obs = do_op(rd, Some(&rst), &w, op).await;
        st.answers += 1;
        if let Some(_) = judge::<TC>(&w, &obs, 0, &format!("{op:?} on a {:?} instance created at epoch {e_created}, storage now at epoch {} (lag {lag})", case.inst, w.m.epoch)).await? {
            st.ok_answers += 1;
        }
    }
    if case.poll {
        let (tx, mut rx) = tokio::sync::mpsc::channel(4);
        let poller = ro.clone();
        let handle = tokio::spawn(async move { poller.poll_for_azks_changes(tokio::time::Duration::from_millis(10), Some(tx)).await });
        // virtual time: two polling periods
        let got = tokio::time::timeout(tokio::time::Duration::from_millis(35), rx.recv()).await;
        let signalled = matches!(got, Ok(Some(())));
        // what the instance believed before: its cached epoch record (or storage for uncached)
        if signalled {
            st.signalled += 1;
        }
        let min_epoch = if signalled { w.m.epoch } else { 0 };
        for op in &case.post {
            if *op == ROp::Flush {
                continue;
            }
            let obs = do_op(rd, Some(&rst), &w, op).await;
            st.answers += 1;
            if judge::<TC>(&w, &obs, min_epoch, &format!("{op:?} on a {:?} instance after change polling (signalled={signalled}, storage at epoch {})", case.inst, w.m.epoch)).await?.is_some() {
                st.ok_answers += 1;
            }
        }
        handle.abort();
    }
    Ok(())
}

fn model_clone<TC: Tcfg>(key: &[u8], batches: &[Vec<Pair>]) -> Model {
    let mut m = Model::new(TC::CFG, key);
    for b in batches {
        let _ = m.publish(b);
    }
    m
}

pub fn lag_check(case: &LagCase, ctx: &mut Ctx) -> R {
    let mut st = LagStats::default();
    let r = block_on_paused(async {
        match case.cfg {
            Cfg::Wa => lag_case::<Wa>(case, &mut st).await,
            Cfg::Exp => lag_case::<Exp>(case, &mut st).await,
        }
    });
    ctx.count("answers", st.answers);
    ctx.count("non_error_answers", st.ok_answers);
    ctx.count("change_signals", st.signalled);
    ctx.class(&format!("lag={}", st.lag.min(4)));
    ctx.class(&format!("{:?}", case.inst));
    if st.lag >= 2 {
        ctx.nontrivial(fp_json(case));
        ctx.sample(case);
    }
    r
}

pub fn rop_strategy() -> impl Strategy<Value = ROp> {
    prop_oneof![
        6 => any::<u16>().prop_map(ROp::Lookup),
        2 => proptest::collection::vec(any::<u16>(), 1..4).prop_map(ROp::Batch),
        4 => (any::<u16>(), prop_oneof![Just(HP::Complete), (1usize..4).prop_map(HP::MostRecent)]).prop_map(|(l, p)| ROp::History(l, p)),
        2 => (any::<u16>(), any::<u16>()).prop_map(|(a, b)| ROp::Audit(a, b)),
        2 => Just(ROp::EpochHash),
    ]
}
pub fn lag_strategy() -> impl Strategy<Value = LagCase> {
    (
        prop_oneof![Just(Cfg::Wa), Just(Cfg::Exp)],
        prop_oneof![2 => hist_strategy(2, 7, 5, 6), 1 => deep_hist_strategy(8)],
        any::<u16>(),
        prop_oneof![3 => Just(RInst::RoCached), 1 => Just(RInst::RoUncached), 2 => Just(RInst::DirCached)],
        proptest::collection::vec(rop_strategy(), 0..6),
        proptest::collection::vec(prop_oneof![8 => rop_strategy(), 1 => Just(ROp::Flush)], 1..10),
        any::<bool>(),
        proptest::collection::vec(rop_strategy(), 1..5),
    )
        .prop_map(|(cfg, hist, created_after, inst, warm, ops, poll, post)| LagCase { cfg, hist, created_after, inst, warm, ops, poll, post, life_ms: 0 })
}
/// short-lived reader cache with real pauses: entries cached at different moments expire at different moments
pub fn expiry_lag_strategy() -> impl Strategy<Value = LagCase> {
    (lag_strategy(), 25u8..60, 8u8..30, 8u8..40, any::<bool>()).prop_map(|(mut c, life, p1, p2, again)| {
        c.life_ms = life;
        if c.inst == RInst::RoUncached {
            c.inst = RInst::RoCached;
        }
        c.poll = false;
        // epoch record cached at creation; nodes cached p1 ms later; requests p2 ms after the writer moved on
        c.warm.insert(0, ROp::Pause(p1));
        c.warm.push(ROp::Lookup(0));
        c.warm.push(ROp::Lookup(40000));
        c.ops.insert(0, ROp::Pause(p2));
        c.ops.push(ROp::EpochHash);
        if again {
            c.ops.push(ROp::Pause(p1));
            c.ops.push(ROp::Lookup(0));
            c.ops.push(ROp::EpochHash);
        }
        c
    })
}

// ------------------------------------------------------------------ part 2: readers interleaved with a writer
#[derive(Serialize, Deserialize, Clone, Debug)]
pub struct ConcCase {
    pub cfg: Cfg,
    pub hist: Hist,
    /// number of batches published before the concurrent phase
    pub init: u8,
    pub writer_cached: bool,
    pub readers: Vec<(RInst, Vec<ROp>)>,
    pub schedules: Vec<Vec<u8>>,
    pub enumerate: u32,
    /// run the change poller on the first read-only instance in the background
    pub poller: bool,
    pub after: Vec<ROp>,
}
#[derive(Default)]
pub struct ConcStats {
    traces: std::collections::HashSet<u64>,
    schedules: u64,
    preempted: u64,
    answers: u64,
    ok_answers: u64,
    answers_not_latest: u64,
    writer_failed: u64,
    signals_checked: u64,
}

struct ConcScenario {
    key: Vec<u8>,
    init: Vec<Vec<Pair>>,
    init_snapshot: Vec<DbRecord>,
    conc: Vec<Vec<Pair>>,
    world: World,
    e0: u64,
}

async fn conc_schedule<TC: Tcfg>(case: &ConcCase, sc: &ConcScenario, policy: &Policy, st: &mut ConcStats) -> R<usize> {
    let vdb = VDb::over(restore(&sc.init_snapshot).await);
    let wst = manager(vdb.clone(), if case.writer_cached { CacheKind::Default } else { CacheKind::None });
    let wdir = new_dir::<TC, _>(wst.clone(), &sc.key, ParKind::Disabled).await?;
    // reader instances
    let mut managers: Vec<StorageManager<VDb>> = vec![];
    let mut readers: Vec<Box<dyn Reader>> = vec![];
    let mut first_ro = None;
    for (inst, _) in &case.readers {
        match inst {
            RInst::WriterClone => {
                managers.push(wst.clone());
                readers.push(Box::new(wdir.clone()));
            }
            RInst::DirCached => {
                let rst = reader_manager(&vdb, *inst);
                managers.push(rst.clone());
                readers.push(Box::new(new_dir::<TC, _>(rst, &sc.key, ParKind::Disabled).await?));
            }
            _ => {
                let rst = reader_manager(&vdb, *inst);
                managers.push(rst.clone());
                let ro = new_ro::<TC, _>(rst, &sc.key, ParKind::Disabled).await?;
                if first_ro.is_none() && *inst == RInst::RoCached {
                    first_ro = Some(ro.clone());
                }
                readers.push(Box::new(ro));
            }
        }
    }
    let poll_ro = if case.poller { first_ro.clone() } else { None };
    vdb.ctl.sched.store(true, Ordering::SeqCst);
    enum Out {
        Writer(Vec<Result<akd::EpochHash, String>>),
        Reader(Vec<(ROp, Obs)>),
        Daemon,
    }
    // requests issued right after the n-th change signal, with their answers
    let signal_log: std::cell::RefCell<Vec<(u64, ROp, Obs)>> = Default::default();
    let mut actors: Vec<Actor<'_, Out>> = vec![];
    {
        let d = wdir.clone();
        let conc = sc.conc.clone();
        actors.push(Box::pin(async move {
            let mut outs = vec![];
            for b in conc {
                outs.push(d.publish(to_batch(&b)).await.map_err(|e| format!("{e:?}")));
            }
            Out::Writer(outs)
        }));
    }
    for (i, (_, ops)) in case.readers.iter().enumerate() {
        let rd = &readers[i];
        let stm = &managers[i];
        let w = &sc.world;
        // An explicit flush is only issued on instances with their own storage manager, between two of their own
        // requests. akd's only flush path (the change poller) takes the directory's cache lock, which excludes
        // publishes and proof generations on that instance; a raw flush of the writer's shared cache in the middle
        // of its publish would violate that documented locking precondition.
        // The polled instance has a second requester (the change-signal listener): a raw flush by this actor could then
        // fall into the middle of the listener's request, which akd's own flush path (under the write lock) never does.
        let polled = poll_ro.is_some() && case.readers.iter().position(|(x, _)| *x == RInst::RoCached) == Some(i);
        let flushable = case.readers[i].0 != RInst::WriterClone && !polled;
        actors.push(Box::pin(async move {
            let mut outs = vec![];
            for op in ops {
                outs.push((op.clone(), do_op(rd.as_ref(), if flushable { Some(stm) } else { None }, w, op).await));
            }
            Out::Reader(outs)
        }));
    }
    // the change poller of the first cached read-only instance and a listener that issues requests on that
    // instance as soon as a signal arrives: background actors under the scheduler's control
    let mut daemons = 0;
    if let Some(ro) = &poll_ro {
        let (tx, mut rx) = tokio::sync::mpsc::channel::<()>(4);
        let p = ro.clone();
        actors.push(Box::pin(async move {
            let _ = p.poll_for_azks_changes(tokio::time::Duration::from_millis(2), Some(tx)).await;
            Out::Daemon
        }));
        let (w, log) = (&sc.world, &signal_log);
        actors.push(Box::pin(async move {
            let mut n = 0u64;
            while let Some(()) = rx.recv().await {
                n += 1;
                for op in [ROp::EpochHash, ROp::Lookup((n as u16).wrapping_mul(13107))] {
                    let ob = do_op(ro, None, w, &op).await;
                    log.borrow_mut().push((n, op, ob));
                }
            }
            Out::Daemon
        }));
        daemons = 2;
    }
    let (outs, trace) = run_actors_d(actors, policy, 40_000, daemons, 10).await;
    vdb.ctl.sched.store(false, Ordering::SeqCst);
    st.schedules += 1;
    if trace.preemptions > 0 {
        st.preempted += 1;
        st.traces.insert(fp(&trace.steps));
    }
    let what0 = format!("schedule {} (actor per step {:?})", crate::sched::show_policy(policy, trace.steps.len()), trace.steps);
    ensure!(!trace.deadlock, "sched-deadlock", "{what0}: actors did not finish");
    // the epochs the directory REALLY published in this run: replay of the writer's successful publishes
    let mut outs = outs;
    let mut m_real = model_clone::<TC>(&sc.key, &sc.init);
    match outs[0].take() {
        Some(Out::Writer(rs)) => {
            for (i, r) in rs.iter().enumerate() {
                match r {
                    Ok(eh) => {
                        let exp = m_real.publish(&sc.conc[i]);
                        ensure!(exp == Ok((eh.0, eh.1)), "writer-wrong-pair", "{what0}: publish #{i} returned ({}, {}) but applying the successful batches so far gives {:?}", eh.0, hex::encode(&eh.1[..6]), exp.map(|(e, r)| (e, hex::encode(&r[..6]))));
                    }
                    Err(_) => {
                        // a failed publish is not C13's subject (C10 / C12); it only means that epoch was not published
                        let dup = { let mut s = std::collections::HashSet::new(); !sc.conc[i].iter().all(|(l, _)| s.insert(l.clone())) };
                        if !dup {
                            st.writer_failed += 1;
                        }
                    }
                }
            }
        }
        _ => return fail("sched-incomplete", format!("{what0}: the writer has no result")),
    }
    let wreal = World { m: m_real, pk: sc.world.pk.clone(), labels: sc.world.labels.clone() };
    let w = &wreal;
    // every change signal denotes a strictly newer epoch than the instance held before: after the n-th signal the
    // instance must answer from epoch >= (epoch at its creation) + n
    for (n, op, ob) in signal_log.borrow().iter() {
        st.signals_checked += 1;
        st.answers += 1;
        if judge::<TC>(w, ob, sc.e0 + n, &format!("{what0}: {op:?} on the polled instance right after change signal #{n} (instance created at epoch {})", sc.e0)).await?.is_some() {
            st.ok_answers += 1;
        }
    }
    let n_fg = 1 + case.readers.len();
    for (ai, o) in outs.into_iter().enumerate().skip(1).take(n_fg - 1) {
        match o {
            Some(Out::Daemon) => {}
            Some(Out::Writer(_)) => {}
            Some(Out::Reader(obs)) => {
                let inst = case.readers[ai - 1].0;
                for (op, ob) in obs {
                    st.answers += 1;
                    if let Some(e) = judge::<TC>(w, &ob, 0, &format!("{what0}: reader {ai} ({inst:?}) {op:?}")).await? {
                        st.ok_answers += 1;
                        if e < w.m.epoch {
                            st.answers_not_latest += 1;
                        }
                    }
                }
            }
            None => return fail("sched-incomplete", format!("{what0}: actor {ai} has no result")),
        }
    }
    // afterwards every instance must still answer correctly (a poisoned cache shows up here)
    for (i, rd) in readers.iter().enumerate() {
        for op in &case.after {
            let ob = do_op(rd.as_ref(), None, w, op).await;
            st.answers += 1;
            judge::<TC>(w, &ob, 0, &format!("{what0}: AFTER the concurrent phase, reader {} ({:?}) {op:?}", i + 1, case.readers[i].0)).await?;
        }
    }
    let eh = wdir.get_epoch_hash().await.map_err(akd_err("final-epoch-hash-err", &what0))?;
    ensure!(eh.0 == w.m.epoch && eh.1 == w.m.roots[w.m.epoch as usize], "writer-final-state", "{what0}: the writer instance reports ({}, ..) after publishing up to epoch {}", eh.0, w.m.epoch);
    Ok(trace.steps.len())
}

async fn conc_case<TC: Tcfg>(case: &ConcCase, st: &mut ConcStats) -> R {
    let key = key_bytes(case.hist.key);
    let (batches, _) = case.hist.resolve();
    if batches.is_empty() || case.readers.is_empty() {
        return Ok(());
    }
    let k0 = (case.init as usize).min(batches.len() - 1);
    let vdb0 = VDb::new();
    let mut m = Model::new(TC::CFG, &key);
    let d0 = new_dir::<TC, _>(manager(vdb0.clone(), CacheKind::None), &key, ParKind::Disabled).await?;
    for (i, b) in batches[..k0].iter().enumerate() {
        publish_both::<TC, _>(&d0, &mut m, b, i).await?;
    }
    let e0 = m.epoch;
    let init_snapshot = snapshot(&vdb0.inner).await;
    for b in &batches[k0..] {
        let _ = m.publish(b);
    }
    let mut labels = case.hist.labels.clone();
    labels.sort();
    labels.dedup();
    let sc = ConcScenario { key: key.clone(), init: batches[..k0].to_vec(), init_snapshot, conc: batches[k0..].to_vec(), world: World { m, pk: public_key(&key), labels }, e0 };
    let t = conc_schedule::<TC>(case, &sc, &Policy::Preempt(vec![]), st).await? as u32;
    for s in &case.schedules {
        conc_schedule::<TC>(case, &sc, &Policy::Bytes(s.clone()), st).await?;
    }
    // change-signal scripts: a reader of the polled instance is parked inside a request (s1 steps in), the writer
    // completes its publishes, the poller runs p steps, the listener l steps; then everybody finishes
    if let (true, Some(ri)) = (case.poller, case.readers.iter().position(|(i, _)| *i == RInst::RoCached)) {
        let (wa, ra, pa, la) = (0u8, ri as u8 + 1, case.readers.len() as u8 + 1, case.readers.len() as u8 + 2);
        for s1 in [0usize, 1, 2, 3, 5, 8] {
            for wn in [t as usize + 10, t as usize / 3] {
                for pn in [2usize, 3, 5, 8] {
                    let mut script = vec![ra; s1];
                    script.extend(std::iter::repeat(wa).take(wn));
                    script.extend(std::iter::repeat(pa).take(pn));
                    script.extend([la, la, la, pa, pa, la, la]);
                    conc_schedule::<TC>(case, &sc, &Policy::Script(script), st).await?;
                }
            }
        }
    }
    if case.enumerate > 0 {
        let others = case.readers.len() as u8;
        let stride1 = ((t as u64 * others as u64) / (case.enumerate as u64 / 2).max(1)).max(1);
        let mut idx = 0u64;
        for s in 0..t {
            for a in 0..others {
                if idx % stride1 == 0 {
                    conc_schedule::<TC>(case, &sc, &Policy::Preempt(vec![(s, a)]), st).await?;
                }
                idx += 1;
            }
        }
        let total = (t as u64) * (t as u64 + 10) / 2;
        let stride = (total / (case.enumerate as u64 / 2).max(1)).max(1);
        let (mut idx, mut k) = (0u64, 0u64);
        for s1 in 0..t {
            for s2 in s1 + 1..t + 10 {
                if idx % stride == 0 {
                    conc_schedule::<TC>(case, &sc, &Policy::Preempt(vec![(s1, (k % others as u64) as u8), (s2, ((k / 2) % others as u64) as u8)]), st).await?;
                    k += 1;
                }
                idx += 1;
            }
        }
    }
    Ok(())
}

pub fn conc_check(case: &ConcCase, ctx: &mut Ctx) -> R {
    let mut st = ConcStats::default();
    let r = block_on_paused(async {
        match case.cfg {
            Cfg::Wa => conc_case::<Wa>(case, &mut st).await,
            Cfg::Exp => conc_case::<Exp>(case, &mut st).await,
        }
    });
    ctx.count("schedules", st.schedules);
    ctx.count("schedules_with_preemption", st.preempted);
    ctx.count("answers", st.answers);
    ctx.count("non_error_answers", st.ok_answers);
    ctx.count("answers_naming_an_older_epoch", st.answers_not_latest);
    ctx.count("writer_publishes_that_failed(not judged here)", st.writer_failed);
    ctx.count("requests_right_after_a_change_signal", st.signals_checked);
    if ctx.counting {
        ctx.evals += st.schedules.saturating_sub(1);
    }
    let cfp = fp_json(&(&case.hist, case.init, &case.readers, case.writer_cached, case.cfg));
    for t in &st.traces {
        ctx.nontrivial(fp(&(cfp, *t)));
    }
    if st.preempted > 0 {
        ctx.sample(&serde_json::json!({"cfg": case.cfg, "hist": case.hist, "init": case.init, "readers": case.readers, "writer_cached": case.writer_cached, "poller": case.poller, "n_random_schedules": case.schedules.len(), "enumerate": case.enumerate}));
    }
    r
}

pub fn conc_strategy(thorough: bool) -> impl Strategy<Value = ConcCase> {
    (
        prop_oneof![Just(Cfg::Wa), Just(Cfg::Exp)],
        hist_strategy(2, 5, 4, 5),
        0u8..3,
        any::<bool>(),
        proptest::collection::vec(
            (prop_oneof![2 => Just(RInst::WriterClone), 2 => Just(RInst::RoCached), 1 => Just(RInst::RoUncached), 1 => Just(RInst::DirCached)], proptest::collection::vec(prop_oneof![10 => rop_strategy(), 1 => Just(ROp::Flush)], 1..4)),
            1..=3,
        ),
        proptest::collection::vec(crate::props::c12::schedule_strategy(300), if thorough { 40 } else { 16 }),
        Just(if thorough { 1200u32 } else { 160 }),
        any::<bool>(),
        proptest::collection::vec(rop_strategy(), 2..5),
    )
        .prop_map(|(cfg, hist, init, writer_cached, readers, schedules, enumerate, poller, after)| ConcCase { cfg, hist, init, writer_cached, readers, schedules, enumerate, poller, after })
}

pub fn run(eng: &mut Engine) {
    let thorough = eng.tier == Tier::Thorough;
    eng.max_shrink = Some(80);
    eng.assume("interleavings at storage-operation granularity (yield points before and after every database operation), tree parallelism disabled; one writer");
    eng.assume("virtual time (paused tokio clock) drives the change poller; the default cache lifetime (30 s of real time) never expires within a case, which maximises staleness");
    eng.prop_part(
        "lagging",
        "sequential lag scenarios: a cached / uncached ReadOnlyDirectory or a second Directory is created and warmed by generated reads at epoch e, the writer then publishes 0-6 more epochs, and the instance answers generated lookup / batch_lookup / key_history / audit / get_epoch_hash requests (with explicit flushes); optionally the change poller runs for two periods and later answers must come from the signalled epoch or newer; every answer must be Err or name a published (epoch, root) and verify to the model's state at that epoch; non-trivial = instance lagging >=2 epochs; distinct by case",
        eng.tier.pick(3000, 40_000),
        lag_strategy,
        lag_check,
    );
    eng.prop_part(
        "expiring_lagging",
        "the lagging scenario with a short-lived reader cache (item lifetime 25-60 ms) and REAL pauses: the epoch record is cached at creation, tree nodes 8-30 ms later, the writer publishes, and requests follow 8-40 ms later - so entries cached at different moments expire at different moments; same oracle (timing decides only which code path is taken, never the verdict); every case counts as non-trivial; distinct by case",
        eng.tier.pick(700, 8000),
        expiry_lag_strategy,
        |c: &LagCase, ctx: &mut Ctx| {
            let r = lag_check(c, ctx);
            ctx.nontrivial(fp_json(c));
            r
        },
    );
    eng.prop_part(
        "concurrent",
        "one writer actor (1-5 publishes) interleaved with 1-3 reader actors on a clone of the writer, cached/uncached read-only instances and a second cached directory (optionally the change poller of the first cached read-only instance and a listener issuing requests right after each change signal as background actors - after the n-th signal answers must come from an epoch >= creation epoch + n; explicit flushes), under the non-preemptive schedule, scripted 'request parked - writer publishes - poller - listener' schedules, strided single and double preemptions and generated random schedules; answers judged as above, then every instance is queried again after the concurrent phase; evaluations = schedules executed; non-trivial = schedule with at least one preemption, distinct by (scenario, actor-per-step trace)",
        eng.tier.pick(64, 600),
        move || conc_strategy(thorough),
        conc_check,
    );
}
