//! C16 - the object cache never changes what a read returns.
use crate::dirx::*;
use crate::engine::*;
use crate::ensure;
use crate::props::c15::*;
use crate::vdb::*;
use akd::append_only_zks::DEFAULT_AZKS_KEY;
use akd::storage::types::DbRecord;
use akd::storage::{Database, DbSetState, Storable, StorageManager};
use akd::Azks;
use proptest::prelude::*;
use std::collections::{BTreeMap, HashSet};
use std::sync::atomic::Ordering;

#[derive(Default)]
struct Stats {
    reads: u64,
    db_reads: u64,
    rejected: u64,
    pauses: u64,
    flushes: u64,
    after_event_reads: u64,
    failed_commits: u64,
}

fn key_of(op: &Op) -> Vec<Vec<u8>> {
    use akd::storage::types::{ValueState, ValueStateKey};
    use akd::tree_node::{NodeKey, TreeNodeWithPreviousValue};
    match op {
        Op::GetVs { u, e } => vec![ValueState::get_full_binary_key_id(&ValueStateKey(user(*u), epoch_of(*e)))],
        Op::GetNode { k } => vec![TreeNodeWithPreviousValue::get_full_binary_key_id(&NodeKey(node_label(*k)))],
        Op::GetAzks => vec![Azks::get_full_binary_key_id(&DEFAULT_AZKS_KEY)],
        Op::BatchGetVs(ks) => ks.iter().map(|(u, e)| ValueState::get_full_binary_key_id(&ValueStateKey(user(*u), epoch_of(*e)))).collect(),
        Op::BatchGetNode(ks) => ks.iter().map(|k| TreeNodeWithPreviousValue::get_full_binary_key_id(&NodeKey(node_label(*k)))).collect(),
        _ => vec![],
    }
}

async fn run_case(case: &Case, st: &mut Stats) -> R {
    let vdb = VDb::new();
    let subj = manager(vdb.clone(), case.cache);
    let plain = StorageManager::new_no_cache(vdb.inner.clone());
    let mut vers = Versions::default(); // versions of committed ∪ pending (rolled back on rollback)
    let mut vers_committed = Versions::default();
    let mut pending: BTreeMap<Vec<u8>, DbRecord> = BTreeMap::new();
    let mut in_tx = false;
    // keys modified behind the manager's back since the last flush: reads of them are unconstrained
    let mut dirty: HashSet<Vec<u8>> = HashSet::new();
    let mut event = false; // a rejected write / pause / flush / eviction-prone step happened since the last read
    let mut pauses_ms = 0u64;
    for (i, op) in case.ops.iter().enumerate() {
        ensure!(subj.is_transaction_active() == in_tx, "tx-flag", "step {i}: is_transaction_active() = {}, expected {in_tx}", subj.is_transaction_active());
        let ctxs = format!("step {i} ({}, cache {:?})", if in_tx { "in-tx" } else { "outside tx" }, case.cache);
        match op {
            Op::Set(_) | Op::BatchSet(_) => {
                let recs: Vec<&Rec> = match op {
                    Op::Set(r) => vec![r],
                    Op::BatchSet(v) => v.iter().collect(),
                    _ => unreachable!(),
                };
                let mut trial = vers.clone();
                let built: Vec<DbRecord> = recs.iter().filter_map(|r| build_rec(r, &mut trial)).collect();
                if built.is_empty() {
                    continue;
                }
                let will_reject = !in_tx && {
                    let rej = vdb.ctl.reject.lock().unwrap();
                    built.iter().any(|b| rej.contains(&b.get_full_binary_id()))
                };
                let r = if let Op::Set(_) = op { subj.set(built[0].clone()).await } else { subj.batch_set(built.clone()).await };
                if will_reject {
                    ensure!(r.is_err(), "rejected-write-ok", "{ctxs}: the database rejected the write but the manager reported success");
                    st.rejected += 1;
                    event = true;
                    vdb.ctl.reject.lock().unwrap().clear();
                } else {
                    r.map_err(akd_err("set-err", &ctxs))?;
                    vers = trial;
                    if in_tx {
                        for b in built {
                            pending.insert(b.get_full_binary_id(), b);
                        }
                    } else {
                        vers_committed = vers.clone();
                        for b in &built {
                            dirty.remove(&b.get_full_binary_id());
                        }
                    }
                }
            }
            Op::RejectNext(r) => {
                let mut t = vers.clone();
                if let Some(b) = build_rec(r, &mut t) {
                    vdb.ctl.reject.lock().unwrap().insert(b.get_full_binary_id());
                }
            }
            Op::External(r) => {
                if let Rec::Vs { .. } = r {
                    continue;
                }
                let mut t = Versions::default();
                if let Some(b) = build_rec(r, &mut t) {
                    dirty.insert(b.get_full_binary_id());
                    vdb.inner.batch_set(vec![b], DbSetState::General).await.unwrap();
                }
            }
            Op::Begin => {
                let started = subj.begin_transaction();
                ensure!(started != in_tx, "begin-result", "{ctxs}: begin_transaction returned {started}");
                in_tx = true;
            }
            Op::Commit => {
                if !in_tx {
                    ensure!(subj.commit_transaction().await.is_err(), "commit-without-tx", "{ctxs}: commit without an open transaction succeeded");
                    continue;
                }
                let azks_id = Azks::get_full_binary_key_id(&DEFAULT_AZKS_KEY);
                if !pending.contains_key(&azks_id) {
                    let rec = DbRecord::Azks(Azks { latest_epoch: 100 + i as u64, num_nodes: 7 });
                    subj.set(rec.clone()).await.map_err(akd_err("set-err", &ctxs))?;
                    pending.insert(azks_id, rec);
                }
                let will_reject = {
                    let rej = vdb.ctl.reject.lock().unwrap();
                    pending.keys().any(|k| rej.contains(k))
                };
                let r = subj.commit_transaction().await;
                if will_reject {
                    ensure!(r.is_err(), "rejected-commit-ok", "{ctxs}: the database rejected the commit batch but commit reported success");
                    let _ = subj.rollback_transaction();
                    st.failed_commits += 1;
                    st.rejected += 1;
                    event = true;
                    vdb.ctl.reject.lock().unwrap().clear();
                    vers = vers_committed.clone();
                } else {
                    r.map_err(akd_err("commit-err", &ctxs))?;
                    vers_committed = vers.clone();
                    for k in pending.keys() {
                        dirty.remove(k);
                    }
                }
                pending.clear();
                in_tx = false;
            }
            Op::Rollback => {
                let r = subj.rollback_transaction();
                ensure!(r.is_ok() == in_tx, "rollback-result", "{ctxs}: rollback returned {r:?}");
                pending.clear();
                vers = vers_committed.clone();
                in_tx = false;
            }
            Op::Pause(ms) => {
                if pauses_ms < 150 {
                    let d = 2 + (*ms % 24) as u64;
                    pauses_ms += d;
                    std::thread::sleep(std::time::Duration::from_millis(d));
                    st.pauses += 1;
                    event = true;
                }
            }
            Op::Flush => {
                subj.flush_cache().await;
                st.flushes += 1;
                event = true;
                dirty.clear();
                // after a flush the next read of the epoch record reflects storage
                if !in_tx || !pending.contains_key(&Azks::get_full_binary_key_id(&DEFAULT_AZKS_KEY)) {
                    let a = norm(subj.get::<Azks>(&DEFAULT_AZKS_KEY).await);
                    let b = norm(plain.get::<Azks>(&DEFAULT_AZKS_KEY).await);
                    ensure!(a == b, "flush-epoch-record", "{ctxs}: after flush_cache the epoch record read {a:?} differs from storage {b:?}");
                }
            }
            Op::CleanOff => subj.disable_cache_cleaning(),
            Op::CleanOn => {
                if !in_tx {
                    subj.enable_cache_cleaning()
                }
            }
            Op::GetDirectAzks => {
                let a = norm(subj.get_direct::<Azks>(&DEFAULT_AZKS_KEY).await);
                let b = norm(plain.get::<Azks>(&DEFAULT_AZKS_KEY).await);
                ensure!(a == b, "get-direct", "{ctxs}: get_direct returned {a:?}, storage holds {b:?}");
            }
            _ if is_read(op) => {
                if key_of(op).iter().any(|k| dirty.contains(k)) {
                    continue; // storage was changed behind this manager's back and no flush happened yet
                }
                st.reads += 1;
                if event {
                    st.after_event_reads += 1;
                    event = false;
                }
                if in_tx && !pending.is_empty() {
                    // reference = copy of storage + pending records
                    let copy = restore(&snapshot(&vdb.inner).await).await;
                    copy.batch_set(pending.values().cloned().collect(), DbSetState::General).await.unwrap();
                    compare_read(op, &subj, &StorageManager::new_no_cache(copy), &ctxs).await?;
                } else {
                    compare_read(op, &subj, &plain, &ctxs).await?;
                }
            }
            _ => {}
        }
    }
    st.db_reads = vdb.ctl.reads.load(Ordering::Relaxed);
    Ok(())
}

pub fn check(case: &Case, ctx: &mut Ctx) -> R {
    let mut st = Stats::default();
    let r = block_on(run_case(case, &mut st));
    ctx.count("reads_compared", st.reads);
    ctx.count("database_reads(cache misses + uncached kinds)", st.db_reads);
    ctx.count("rejected_writes", st.rejected);
    ctx.count("failed_commits", st.failed_commits);
    ctx.count("pauses", st.pauses);
    ctx.count("flushes", st.flushes);
    ctx.count("reads_right_after(reject|pause|flush)", st.after_event_reads);
    if st.after_event_reads > 0 {
        ctx.nontrivial(fp_json(case));
        ctx.sample(case);
    }
    r
}

// ------------------------------------------------------------------ concurrency variant (deterministic scheduler)
#[derive(serde::Serialize, serde::Deserialize, Clone, Debug)]
pub struct ConcCase {
    pub cache: CacheKind,
    /// writes committed before the concurrent phase (so that the cache starts cold or warm)
    pub setup: Vec<Rec>,
    pub warm: bool,
    /// actor 0: writer (plain writes and begin / writes / commit blocks); others: readers
    pub writer: Vec<Op>,
    pub readers: Vec<Vec<Op>>,
    pub schedules: Vec<Vec<u8>>,
    pub enumerate: u32,
}

async fn all_keys_equal(subj: &StorageManager<VDb>, plain: &StorageManager<akd::storage::memory::AsyncInMemoryDatabase>, what: &str) -> R {
    for u in 0..3u8 {
        for e in 0..8u8 {
            compare_read(&Op::GetVs { u, e }, subj, plain, what).await?;
        }
    }
    for k in 0..4u8 {
        compare_read(&Op::GetNode { k }, subj, plain, what).await?;
    }
    compare_read(&Op::GetAzks, subj, plain, what).await?;
    compare_read(&Op::BatchGetNode(vec![0, 1, 2, 3]), subj, plain, what).await?;
    compare_read(&Op::BatchGetVs((0..3).flat_map(|u| (0..8).map(move |e| (u, e))).collect()), subj, plain, what).await
}

async fn conc_schedule(case: &ConcCase, policy: &crate::sched::Policy, stats: &mut (u64, u64, std::collections::HashSet<u64>)) -> R<usize> {
    use crate::sched::*;
    let vdb = VDb::new();
    let subj = manager(vdb.clone(), case.cache);
    let plain = StorageManager::new_no_cache(vdb.inner.clone());
    let mut vers = Versions::default();
    let setup: Vec<DbRecord> = case.setup.iter().filter_map(|r| build_rec(r, &mut vers)).collect();
    if !setup.is_empty() {
        vdb.inner.batch_set(setup, DbSetState::General).await.unwrap();
    }
    if case.warm {
        all_keys_equal(&subj, &plain, "warm-up").await?;
    }
    // pre-build the writer's records (versions must stay well-formed)
    let mut wops: Vec<(Op, Vec<DbRecord>)> = vec![];
    for op in &case.writer {
        let recs = match op {
            Op::Set(r) => build_rec(r, &mut vers).into_iter().collect(),
            Op::BatchSet(v) => v.iter().filter_map(|r| build_rec(r, &mut vers)).collect(),
            _ => vec![],
        };
        wops.push((op.clone(), recs));
    }
    vdb.ctl.sched.store(true, Ordering::SeqCst);
    let mut actors: Vec<Actor<'_, ()>> = vec![];
    {
        let subj = &subj;
        actors.push(Box::pin(async move {
            let mut in_tx = false;
            let mut have_azks = false;
            for (op, recs) in wops {
                match op {
                    Op::Set(_) | Op::BatchSet(_) if !recs.is_empty() => {
                        have_azks |= recs.iter().any(|r| matches!(r, DbRecord::Azks(_)));
                        let _ = subj.batch_set(recs).await;
                    }
                    Op::Begin if !in_tx => {
                        in_tx = subj.begin_transaction();
                        have_azks = false;
                    }
                    Op::Commit if in_tx => {
                        if !have_azks {
                            let _ = subj.set(DbRecord::Azks(Azks { latest_epoch: 77, num_nodes: 3 })).await;
                        }
                        let _ = subj.commit_transaction().await;
                        in_tx = false;
                    }
                    Op::Rollback if in_tx => {
                        let _ = subj.rollback_transaction();
                        in_tx = false;
                    }
                    _ => {}
                }
            }
            if in_tx {
                let _ = subj.rollback_transaction();
            }
        }));
    }
    for ops in &case.readers {
        let subj = &subj;
        let plain = &plain;
        actors.push(Box::pin(async move {
            for op in ops {
                if is_read(op) {
                    // the answer itself may legitimately be the value before or after a concurrent write
                    let _ = compare_read(op, subj, plain, "concurrent read (not judged)").await;
                }
            }
        }));
    }
    let (_, trace) = run_actors(actors, policy, 20_000).await;
    vdb.ctl.sched.store(false, Ordering::SeqCst);
    stats.0 += 1;
    if trace.preemptions > 0 {
        stats.1 += 1;
        stats.2.insert(fp(&trace.steps));
    }
    let what = format!("after quiescence of schedule {} (actor per step {:?})", show_policy(policy, trace.steps.len()), trace.steps);
    ensure!(!trace.deadlock, "sched-deadlock", "{what}: actors did not finish");
    ensure!(!subj.is_transaction_active(), "tx-flag", "{what}: transaction left open");
    all_keys_equal(&subj, &plain, &what).await?;
    Ok(trace.steps.len())
}

pub fn conc_check(case: &ConcCase, ctx: &mut Ctx) -> R {
    use crate::sched::*;
    let mut stats = (0u64, 0u64, std::collections::HashSet::new());
    let r = block_on_paused(async {
        let t = conc_schedule(case, &Policy::Preempt(vec![]), &mut stats).await? as u32;
        for s in &case.schedules {
            conc_schedule(case, &Policy::Bytes(s.clone()), &mut stats).await?;
        }
        let others = case.readers.len() as u8;
        if case.enumerate > 0 && others > 0 {
            let stride = ((t as u64 * others as u64) / case.enumerate as u64).max(1);
            let mut idx = 0u64;
            for s in 0..t {
                for a in 0..others {
                    if idx % stride == 0 {
                        conc_schedule(case, &Policy::Preempt(vec![(s, a)]), &mut stats).await?;
                        conc_schedule(case, &Policy::Preempt(vec![(s, a), (s + 2, a)]), &mut stats).await?;
                    }
                    idx += 1;
                }
            }
        }
        Ok(())
    });
    ctx.count("schedules", stats.0);
    ctx.count("schedules_with_preemption", stats.1);
    if ctx.counting {
        ctx.evals += stats.0.saturating_sub(1);
    }
    let cfp = fp_json(&(&case.cache, &case.setup, case.warm, &case.writer, &case.readers));
    for t in &stats.2 {
        ctx.nontrivial(fp(&(cfp, *t)));
    }
    if stats.1 > 0 {
        ctx.sample(&serde_json::json!({"cache": case.cache, "writer": case.writer, "readers": case.readers, "warm": case.warm, "n_random_schedules": case.schedules.len()}));
    }
    r
}

pub fn op16_strategy() -> impl Strategy<Value = Op> {
    prop_oneof![
        12 => rec_strategy().prop_map(Op::Set),
        4 => proptest::collection::vec(rec_strategy(), 1..5).prop_map(Op::BatchSet),
        30 => read_strategy(),
        3 => Just(Op::Begin),
        2 => Just(Op::Commit),
        1 => Just(Op::Rollback),
        2 => any::<u8>().prop_map(Op::Pause),
        2 => Just(Op::Flush),
        4 => rec_strategy().prop_map(Op::RejectNext),
        1 => Just(Op::GetDirectAzks),
        2 => rec_strategy().prop_map(Op::External),
        1 => Just(Op::CleanOff),
        1 => Just(Op::CleanOn),
    ]
}
pub fn cache_strategy() -> impl Strategy<Value = CacheKind> {
    prop_oneof![
        2 => Just(CacheKind::Default),
        4 => (2u16..20, prop_oneof![Just(0u16), 200u16..10_000], 2u16..10).prop_map(|(l, m, c)| CacheKind::Custom(l, m, c)),
        2 => (prop_oneof![Just(0u16)], 200u16..3000, 2u16..6).prop_map(|(l, m, c)| CacheKind::Custom(l, m, c)),
    ]
}

pub fn run(eng: &mut Engine) {
    let max_ops = eng.tier.pick(50, 140);
    eng.assume("all writes go through the one manager under test, except explicit External writes (another instance); reads of externally modified keys are unconstrained until the next flush");
    eng.assume("reference = the underlying in-memory database read directly (plus the pending records inside a transaction); real pauses of 2-25 ms (<=150 ms per case) drive expiry and cleaning, timing never decides the verdict");
    eng.prop_part(
        "cache_ops",
        "generated op sequences through one cached manager (lifetime 2-20 ms or default, memory limit 200 B-10 kB or none, clean frequency 2-10 ms, cleaning switched on/off): writes incl. writes the database rejects (outside and at commit), all read kinds, get_direct, transactions, flushes, external writes, real pauses; every read must equal storage (or the pending value); non-trivial = a read directly after a rejected write / expiry pause / flush; distinct by case",
        eng.tier.pick(40_000, 400_000),
        move || (cache_strategy(), proptest::collection::vec(op16_strategy(), 1..=max_ops)).prop_map(|(cache, ops)| Case { cache, ops }),
        check,
    );
    eng.max_shrink = Some(100);
    eng.prop_part(
        "concurrent",
        "concurrency variant on the deterministic scheduler: one writer actor (plain writes and begin/writes/commit or rollback blocks) and 1-2 reader actors (all read kinds) on one cached manager over a cold or warmed cache, yield points before and after every database operation; non-preemptive, strided single/double preemptions and generated random schedules; oracle: after quiescence every key of the universe read through the manager (single and batched) equals the database; evaluations = schedules executed; non-trivial = schedule with at least one preemption, distinct by (scenario, actor-per-step trace)",
        eng.tier.pick(250, 3000),
        || {
            (
                prop_oneof![Just(CacheKind::Default), (0u16..1, 0u16..1, 2u16..4).prop_map(|(a, b, c)| CacheKind::Custom(a, b, c))],
                proptest::collection::vec(rec_strategy(), 0..8),
                any::<bool>(),
                proptest::collection::vec(prop_oneof![6 => rec_strategy().prop_map(Op::Set), 2 => proptest::collection::vec(rec_strategy(), 1..4).prop_map(Op::BatchSet), 2 => Just(Op::Begin), 2 => Just(Op::Commit), 1 => Just(Op::Rollback)], 1..10),
                proptest::collection::vec(proptest::collection::vec(read_strategy(), 1..6), 1..3),
                proptest::collection::vec(crate::props::c12::schedule_strategy(120), 12),
                Just(60u32),
            )
                .prop_map(|(cache, setup, warm, writer, readers, schedules, enumerate)| ConcCase { cache, setup, warm, writer, readers, schedules, enumerate })
        },
        conc_check,
    );
}
