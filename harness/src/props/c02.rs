//! C02 - lookup returns a verifying proof of the latest value for every published label.
use crate::dirx::*;
use crate::engine::*;
use crate::gen::*;
use crate::model::*;
use crate::{both_cfgs, ensure};
use akd::storage::memory::AsyncInMemoryDatabase;
use akd::AkdLabel;
use proptest::prelude::*;
use serde::{Deserialize, Serialize};

#[derive(Serialize, Deserialize, Clone, Debug)]
pub struct Case {
    pub hist: Hist,
    pub cache: CacheKind,
    pub par: ParKind,
    /// subset selectors for batch lookups (bit i set => take i-th published label)
    pub subsets: Vec<u16>,
    /// look up through a fresh ReadOnlyDirectory (cached or not) as well
    pub ro_cache: Option<CacheKind>,
}

pub struct Stats {
    pub lookups: u64,
    pub v2: bool,
    pub old: bool,
}

async fn run_cfg<TC: Tcfg>(case: &Case, st: &mut Stats) -> R {
    let db = AsyncInMemoryDatabase::new();
    let mut sys = Sys::<TC, _>::new(manager(db.clone(), case.cache), case.hist.key, case.par).await?;
    let (batches, _) = case.hist.resolve();
    let mut pool: Vec<Vec<u8>> = vec![];
    for l in &case.hist.labels {
        if !pool.contains(l) {
            pool.push(l.clone());
        }
    }
    pool.push(b"never-published-label".to_vec());
    for (i, b) in batches.iter().enumerate() {
        let changed = sys.publish(b, i).await?;
        if !changed && i % 3 != 0 {
            continue; // state unchanged: re-check only sometimes
        }
        // very long histories: query only around the one-byte boundary and at the end
        if batches.len() > 100 && !(i + 1 == batches.len() || (253..=258).contains(&i) || i == 16 || i == 127) {
            continue;
        }
        let e = sys.m.epoch;
        let root = sys.m.roots[e as usize];
        let ro = match case.ro_cache {
            Some(ck) if e > 0 => Some(new_ro::<TC, _>(manager(db.clone(), ck), &sys.key, case.par).await?),
            _ => None,
        };
        let mut published = vec![];
        // very large pools (wide histories): a rotating window of labels per epoch keeps the case affordable
        let window: Vec<Vec<u8>> = if pool.len() > 14 { (0..12).map(|k| pool[(i * 5 + k * 7) % pool.len()].clone()).collect() } else { pool.clone() };
        for l in &window {
            let exp = expected_lookup(&sys.m, l, e);
            let real = sys.dir.lookup(AkdLabel(l.clone())).await;
            st.lookups += 1;
            match (real, &exp) {
                (Ok((proof, eh)), Some(x)) => {
                    check_eh(&eh, &sys.m, "lookup")?;
                    let r = verify_lookup::<TC>(&sys.pk, root, e, l, proof.clone());
                    ensure!(r.as_ref().ok() == Some(x), "lookup-result", "epoch {e} label {}: lookup verification gave {:?}, model latest {:?}", hex::encode(l), r, x);
                    if x.version >= 2 {
                        st.v2 = true;
                    }
                    if e >= x.epoch + 2 {
                        st.old = true;
                    }
                    published.push((l.clone(), proof));
                }
                (Err(_), None) => {}
                (Ok(_), None) => return fail("lookup-unpublished-ok", format!("epoch {e}: lookup of never-published label {} returned a proof", hex::encode(l))),
                (Err(err), Some(_)) => return fail("lookup-err", format!("epoch {e}: lookup of published label {} failed: {err:?}", hex::encode(l))),
            }
            if let Some(ro) = &ro {
                match (ro.lookup(AkdLabel(l.clone())).await, &exp) {
                    (Ok((proof, eh)), Some(x)) => {
                        check_eh(&eh, &sys.m, "ro lookup")?;
                        let r = verify_lookup::<TC>(&sys.pk, root, e, l, proof);
                        ensure!(r.as_ref().ok() == Some(x), "ro-lookup-result", "epoch {e} label {}: read-only lookup gave {:?}, model {:?}", hex::encode(l), r, x);
                    }
                    (Err(_), None) => {}
                    (Ok(_), None) => return fail("lookup-unpublished-ok", format!("epoch {e}: read-only lookup of unpublished label {} returned a proof", hex::encode(l))),
                    (Err(err), Some(_)) => return fail("ro-lookup-err", format!("epoch {e}: read-only lookup of {} failed: {err:?}", hex::encode(l))),
                }
            }
        }
        // batch lookups
        if published.is_empty() {
            continue;
        }
        let mut sets: Vec<Vec<usize>> = vec![(0..published.len()).collect()];
        for s in &case.subsets {
            let idx: Vec<usize> = (0..published.len()).filter(|k| (s >> (k % 16)) & 1 == 1).collect();
            if !idx.is_empty() {
                sets.push(idx);
            }
        }
        for idx in sets {
            let labels: Vec<AkdLabel> = idx.iter().map(|k| AkdLabel(published[*k].0.clone())).collect();
            let (proofs, eh) = sys.dir.batch_lookup(&labels).await.map_err(akd_err("batch-lookup-err", "batch_lookup of published labels failed"))?;
            check_eh(&eh, &sys.m, "batch_lookup")?;
            ensure!(proofs.len() == labels.len(), "batch-len", "batch_lookup returned {} proofs for {} labels", proofs.len(), labels.len());
            for (k, p) in idx.iter().zip(proofs.into_iter()) {
                let l = &published[*k].0;
                let single = verify_lookup::<TC>(&sys.pk, root, e, l, published[*k].1.clone());
                let batch = verify_lookup::<TC>(&sys.pk, root, e, l, p);
                ensure!(batch.is_ok() && batch == single, "batch-vs-single", "epoch {e} label {}: batch result {:?} != single result {:?}", hex::encode(l), batch, single);
            }
        }
        // a batch containing a never-published label must fail as a whole
        let mut labels: Vec<AkdLabel> = published.iter().take(2).map(|(l, _)| AkdLabel(l.clone())).collect();
        labels.push(AkdLabel(b"never-published-label".to_vec()));
        ensure!(sys.dir.batch_lookup(&labels).await.is_err(), "batch-unpublished-ok", "epoch {e}: batch_lookup containing a never-published label returned proofs");
    }
    Ok(())
}

pub fn check(case: &Case, ctx: &mut Ctx) -> R {
    let mut st = Stats { lookups: 0, v2: false, old: false };
    let r = (|| {
        both_cfgs!(run_cfg(case, &mut st));
        Ok(())
    })();
    ctx.count("lookups", st.lookups);
    if st.v2 {
        ctx.class("lookup_version>=2");
    }
    if st.old {
        ctx.class("lookup_of_label_untouched>=2_epochs");
    }
    if case.ro_cache.is_some() {
        ctx.class("read_only_directory");
    }
    if st.v2 && st.old {
        ctx.nontrivial(fp(&case.hist));
        ctx.sample(case);
    }
    r
}

pub fn strategy(thorough: bool) -> impl Strategy<Value = Case> {
    let (max_e, max_ops) = if thorough { (24, 16) } else { (10, 8) };
    (
        mixed_hist_strategy(max_e, max_ops),
        prop_oneof![Just(CacheKind::None), Just(CacheKind::Default)],
        prop_oneof![Just(ParKind::Disabled), Just(ParKind::Default)],
        proptest::collection::vec(any::<u16>(), 0..3),
        prop_oneof![Just(None), Just(Some(CacheKind::None)), Just(Some(CacheKind::Default))],
    )
        .prop_map(|(hist, cache, par, subsets, ro_cache)| Case { hist, cache, par, subsets, ro_cache })
}

pub fn run(eng: &mut Engine) {
    let thorough = eng.tier == Tier::Thorough;
    eng.assume("expected (value, version, epoch) and the root hash come from the independent model, not from the directory");
    eng.prop_part(
        "lookup",
        "generated histories; after every state-changing publish every pool label (published or not) is looked up singly (Directory, and a fresh ReadOnlyDirectory) and in generated batches; non-trivial = the case verified a lookup of a label with version>=2 AND of a label whose last update is >=2 epochs old; distinct by history",
        eng.tier.pick(1500, 20_000),
        || strategy(thorough),
        check,
    );
    eng.prop_part(
        "very_deep",
        "one label driven through 258-300 versions; queries at epochs 17, 128, 254-259 and the last one (marker versions around the skip-list entry 256, version/epoch fields beyond one byte); same oracle; every case non-trivial",
        eng.tier.pick(6, 48),
        || (very_deep_hist_strategy(), prop_oneof![Just(CacheKind::None), Just(CacheKind::Default)]).prop_map(|(hist, cache)| Case { hist, cache, par: ParKind::Disabled, subsets: vec![0xAAAA], ro_cache: Some(CacheKind::None) }),
        |c: &Case, ctx: &mut Ctx| {
            ctx.nontrivial(fp(&c.hist));
            check(c, ctx)
        },
    );
    crate::props::readfaults::add_part(eng, crate::props::readfaults::Kind::Lookup);
    eng.max_shrink = Some(80);
    eng.prop_part(
        "lookups_during_publish",
        "the C13 scheduler scenario restricted to lookup / batch_lookup requests: one writer actor publishing 1-5 epochs interleaved at storage-operation granularity with 1-3 reader actors (clone of the writer, cached / uncached read-only instances, a second cached directory) under the non-preemptive schedule, strided single / double preemptions and generated schedules; every non-error answer must name a really published (epoch, root) and verify against the epoch hash returned WITH it to the model's state at that epoch; evaluations = schedules executed; non-trivial = schedule with at least one preemption, distinct by (scenario, actor-per-step trace)",
        eng.tier.pick(24, 300),
        move || {
            crate::props::c13::conc_strategy(thorough).prop_map(|mut c| {
                use crate::props::c13::ROp;
                let only_lookups = |ops: &mut Vec<ROp>| {
                    for (i, op) in ops.iter_mut().enumerate() {
                        let repl = match op {
                            ROp::Lookup(_) | ROp::Batch(_) | ROp::Flush => None,
                            ROp::History(s, _) => Some(ROp::Lookup(*s)),
                            ROp::Audit(a, b) => Some(ROp::Batch(vec![*a, *b])),
                            ROp::EpochHash | ROp::Pause(_) => Some(ROp::Lookup((i as u16).wrapping_mul(21845))),
                        };
                        if let Some(r) = repl {
                            *op = r;
                        }
                    }
                };
                for (_, ops) in c.readers.iter_mut() {
                    only_lookups(ops);
                }
                only_lookups(&mut c.after);
                c.poller = false;
                c
            })
        },
        crate::props::c13::conc_check,
    );
}
