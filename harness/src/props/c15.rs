//! C15 - reads inside a storage transaction see pending writes exactly as after commit.
use crate::dirx::*;
use crate::engine::*;
use crate::ensure;
use crate::vdb::*;
use akd::append_only_zks::DEFAULT_AZKS_KEY;
use akd::errors::StorageError;
use akd::storage::memory::AsyncInMemoryDatabase;
use akd::storage::types::{DbRecord, ValueState, ValueStateKey, ValueStateRetrievalFlag};
use akd::storage::{Storable, StorageManager};
use akd::tree_node::{NodeKey, TreeNode, TreeNodeType, TreeNodeWithPreviousValue};
use akd::{AkdLabel, AkdValue, Azks, AzksValue, NodeLabel};
use proptest::prelude::*;
use serde::{Deserialize, Serialize};
use std::collections::BTreeMap;
use std::sync::atomic::Ordering;

#[derive(Serialize, Deserialize, Clone, Copy, Debug, PartialEq, Eq)]
pub enum Flag {
    SpecV(u8),
    SpecE(u8),
    Leq(u8),
    Max,
    Min,
}
impl Flag {
    pub fn to(self) -> ValueStateRetrievalFlag {
        match self {
            Flag::SpecV(v) => ValueStateRetrievalFlag::SpecificVersion(1 + (v % 6) as u64),
            Flag::SpecE(e) => ValueStateRetrievalFlag::SpecificEpoch(epoch_of(e)),
            Flag::Leq(e) => ValueStateRetrievalFlag::LeqEpoch(epoch_of(e)),
            Flag::Max => ValueStateRetrievalFlag::MaxEpoch,
            Flag::Min => ValueStateRetrievalFlag::MinEpoch,
        }
    }
}
#[derive(Serialize, Deserialize, Clone, Debug, PartialEq, Eq)]
pub enum Rec {
    Vs { u: u8, e: u8, val: u8 },
    Node { k: u8, tag: u8 },
    Azks { epoch: u8 },
}
#[derive(Serialize, Deserialize, Clone, Debug, PartialEq, Eq)]
pub enum Op {
    Set(Rec),
    BatchSet(Vec<Rec>),
    GetVs { u: u8, e: u8 },
    GetNode { k: u8 },
    GetAzks,
    BatchGetVs(Vec<(u8, u8)>),
    BatchGetNode(Vec<u8>),
    UserState { u: u8, flag: Flag },
    UserData { u: u8 },
    UserVersions { users: u8, flag: Flag },
    Begin,
    Commit,
    Rollback,
    /// C16 only: real-time pause in ms
    Pause(u8),
    /// C16 only: flush the cache
    Flush,
    /// C16 only: the database rejects the next write touching this record
    RejectNext(Rec),
    /// C16 only: read bypassing the cache
    GetDirectAzks,
    /// C16 only: another instance writes straight to the database (node / epoch records)
    External(Rec),
    /// C16 only: disable / enable cache cleaning
    CleanOff,
    CleanOn,
}
#[derive(Serialize, Deserialize, Clone, Debug)]
pub struct Case {
    pub cache: CacheKind,
    pub ops: Vec<Op>,
}

pub const USERS: [&[u8]; 3] = [b"a", b"b", b"c"];
pub fn user(u: u8) -> Vec<u8> {
    USERS[(u % 3) as usize].to_vec()
}
pub fn epoch_of(e: u8) -> u64 {
    1 + (e % 8) as u64
}
pub fn value_of(v: u8) -> Vec<u8> {
    match v % 5 {
        0 => vec![],
        1 => b"x".to_vec(),
        2 => b"y".to_vec(),
        3 => vec![7u8; 40],
        _ => vec![v],
    }
}
pub fn node_label(k: u8) -> NodeLabel {
    let mut v = [0u8; 32];
    v[0] = (k % 4) << 6;
    NodeLabel::new(v, 2)
}
pub fn node_rec(k: u8, tag: u8) -> DbRecord {
    let label = node_label(k);
    let mk = |t: u8| TreeNode {
        label,
        last_epoch: (t % 8) as u64,
        min_descendant_epoch: 1,
        parent: NodeLabel::root(),
        node_type: TreeNodeType::Interior,
        left_child: None,
        right_child: if t % 2 == 0 { None } else { Some(label) },
        hash: AzksValue([t; 32]),
    };
    DbRecord::TreeNode(TreeNodeWithPreviousValue { label, latest_node: mk(tag), previous_node: if tag % 3 == 0 { None } else { Some(mk(tag.wrapping_sub(1))) } })
}

/// version bookkeeping for well-formed data: per user, versions increase with epochs and a
/// rewrite of an existing (user, epoch) keeps its version
#[derive(Clone, Default)]
pub struct Versions(pub BTreeMap<(Vec<u8>, u64), u64>);
impl Versions {
    pub fn version_for(&self, u: &[u8], e: u64) -> Option<u64> {
        if let Some(v) = self.0.get(&(u.to_vec(), e)) {
            return Some(*v);
        }
        let lower = self.0.iter().filter(|((uu, ee), _)| uu == u && *ee < e).map(|(_, v)| *v).max().unwrap_or(0);
        let upper = self.0.iter().filter(|((uu, ee), _)| uu == u && *ee > e).map(|(_, v)| *v).min().unwrap_or(u64::MAX);
        if lower + 1 < upper {
            Some(lower + 1)
        } else {
            None
        }
    }
}

pub fn build_rec(r: &Rec, vers: &mut Versions) -> Option<DbRecord> {
    Some(match r {
        Rec::Vs { u, e, val } => {
            let (un, ep) = (user(*u), epoch_of(*e));
            let v = vers.version_for(&un, ep)?;
            vers.0.insert((un.clone(), ep), v);
            let mut lv = [0u8; 32];
            lv[0] = un[0];
            lv[1] = v as u8;
            DbRecord::ValueState(ValueState { value: AkdValue(value_of(*val)), version: v, label: NodeLabel::new(lv, 256), epoch: ep, username: AkdLabel(un) })
        }
        Rec::Node { k, tag } => node_rec(*k, *tag),
        Rec::Azks { epoch } => DbRecord::Azks(Azks { latest_epoch: *epoch as u64, num_nodes: 1 + *epoch as u64 }),
    })
}

pub fn norm<T>(r: Result<T, StorageError>) -> Result<Option<T>, String> {
    match r {
        Ok(x) => Ok(Some(x)),
        Err(StorageError::NotFound(_)) => Ok(None),
        Err(e) => Err(format!("{e:?}")),
    }
}
pub fn sorted(mut v: Vec<DbRecord>) -> Vec<DbRecord> {
    v.sort_by_key(|r| r.get_full_binary_id());
    v
}
pub fn users_of(mask: u8) -> Vec<AkdLabel> {
    (0..3).filter(|i| (mask >> i) & 1 == 1).map(|i| AkdLabel(user(i))).collect()
}

/// compare one read on the subject manager with the same read on the reference manager
pub async fn compare_read<A: akd::storage::Database, B: akd::storage::Database>(op: &Op, subj: &StorageManager<A>, refm: &StorageManager<B>, ctxs: &str) -> R {
    macro_rules! cmp {
        ($sig:expr, $a:expr, $b:expr) => {{
            let (a, b) = ($a, $b);
            ensure!(a == b, $sig, "{ctxs}: {op:?} returned {:?}, reference (database{}) holds {:?}", a, if ctxs.contains("in-tx") { " + pending writes" } else { "" }, b);
        }};
    }
    match op {
        Op::GetVs { u, e } => {
            let k = ValueStateKey(user(*u), epoch_of(*e));
            cmp!("get-valuestate", norm(subj.get::<ValueState>(&k).await), norm(refm.get::<ValueState>(&k).await));
        }
        Op::GetNode { k } => {
            let k = NodeKey(node_label(*k));
            cmp!("get-node", norm(subj.get::<TreeNodeWithPreviousValue>(&k).await), norm(refm.get::<TreeNodeWithPreviousValue>(&k).await));
        }
        Op::GetAzks => cmp!("get-azks", norm(subj.get::<Azks>(&DEFAULT_AZKS_KEY).await), norm(refm.get::<Azks>(&DEFAULT_AZKS_KEY).await)),
        Op::BatchGetVs(keys) => {
            let mut ks: Vec<ValueStateKey> = keys.iter().map(|(u, e)| ValueStateKey(user(*u), epoch_of(*e))).collect();
            ks.sort_by_key(|k| ValueState::get_full_binary_key_id(k));
            ks.dedup();
            cmp!("batch-get-valuestate", norm(subj.batch_get::<ValueState>(&ks).await).map(|o| o.map(sorted)), norm(refm.batch_get::<ValueState>(&ks).await).map(|o| o.map(sorted)));
        }
        Op::BatchGetNode(keys) => {
            let mut ks: Vec<NodeKey> = keys.iter().map(|k| NodeKey(node_label(*k))).collect();
            ks.sort_by_key(|k| TreeNodeWithPreviousValue::get_full_binary_key_id(k));
            ks.dedup();
            cmp!("batch-get-node", norm(subj.batch_get::<TreeNodeWithPreviousValue>(&ks).await).map(|o| o.map(sorted)), norm(refm.batch_get::<TreeNodeWithPreviousValue>(&ks).await).map(|o| o.map(sorted)));
        }
        Op::UserState { u, flag } => {
            let l = AkdLabel(user(*u));
            cmp!("user-state", norm(subj.get_user_state(&l, flag.to()).await), norm(refm.get_user_state(&l, flag.to()).await));
        }
        Op::UserData { u } => {
            let l = AkdLabel(user(*u));
            let f = |r: Result<akd::storage::types::KeyData, StorageError>| {
                norm(r).map(|o| {
                    let mut v = o.map(|k| k.states).unwrap_or_default();
                    v.sort_by_key(|s| s.epoch);
                    v
                })
            };
            cmp!("user-data", f(subj.get_user_data(&l).await), f(refm.get_user_data(&l).await));
        }
        Op::UserVersions { users, flag } => {
            let us = users_of(*users);
            let f = |r: Result<std::collections::HashMap<AkdLabel, (u64, AkdValue)>, StorageError>| norm(r).map(|o| o.map(|m| m.into_iter().collect::<BTreeMap<_, _>>()));
            cmp!("user-state-versions", f(subj.get_user_state_versions(&us, flag.to()).await), f(refm.get_user_state_versions(&us, flag.to()).await));
        }
        _ => {}
    }
    Ok(())
}

pub fn is_read(op: &Op) -> bool {
    matches!(op, Op::GetVs { .. } | Op::GetNode { .. } | Op::GetAzks | Op::BatchGetVs(_) | Op::BatchGetNode(_) | Op::UserState { .. } | Op::UserData { .. } | Op::UserVersions { .. })
}

async fn copy_db(db: &AsyncInMemoryDatabase) -> AsyncInMemoryDatabase {
    restore(&snapshot(db).await).await
}

#[derive(Default)]
struct Stats {
    in_tx_reads: u64,
    mixed_user_query: u64,
    commits: u64,
    rollbacks: u64,
}

async fn run_case(case: &Case, st: &mut Stats) -> R {
    let vdb = VDb::new();
    let subj = manager(vdb.clone(), case.cache);
    // reference: committed state, and (inside a transaction) committed ∪ pending
    let mut ref_c = AsyncInMemoryDatabase::new();
    let mut ref_p: Option<AsyncInMemoryDatabase> = None;
    let mut vers_c = Versions::default();
    let mut vers_p = Versions::default();
    let mut pending: BTreeMap<Vec<u8>, DbRecord> = BTreeMap::new();
    for (i, op) in case.ops.iter().enumerate() {
        let in_tx = ref_p.is_some();
        ensure!(subj.is_transaction_active() == in_tx, "tx-flag", "step {i}: is_transaction_active() = {} but the harness expects {in_tx}", subj.is_transaction_active());
        let ctxs = format!("step {i} ({})", if in_tx { "in-tx" } else { "outside tx" });
        match op {
            Op::Set(_) | Op::BatchSet(_) => {
                let recs: Vec<&Rec> = match op {
                    Op::Set(r) => vec![r],
                    Op::BatchSet(v) => v.iter().collect(),
                    _ => unreachable!(),
                };
                let vers = if in_tx { &mut vers_p } else { &mut vers_c };
                let built: Vec<DbRecord> = recs.iter().filter_map(|r| build_rec(r, vers)).collect();
                if built.is_empty() {
                    continue;
                }
                if let Op::Set(_) = op {
                    subj.set(built[0].clone()).await.map_err(akd_err("set-err", &ctxs))?;
                } else {
                    subj.batch_set(built.clone()).await.map_err(akd_err("set-err", &ctxs))?;
                }
                let target = if in_tx { ref_p.as_ref().unwrap() } else { &ref_c };
                use akd::storage::Database;
                target.batch_set(built.clone(), akd::storage::DbSetState::General).await.unwrap();
                if in_tx {
                    for b in built {
                        pending.insert(b.get_full_binary_id(), b);
                    }
                } else {
                    vers_p = vers_c.clone();
                }
            }
            Op::Begin => {
                let started = subj.begin_transaction();
                ensure!(started != in_tx, "begin-result", "{ctxs}: begin_transaction returned {started}");
                if !in_tx {
                    ref_p = Some(copy_db(&ref_c).await);
                    vers_p = vers_c.clone();
                    pending.clear();
                }
            }
            Op::Commit => {
                if !in_tx {
                    ensure!(subj.commit_transaction().await.is_err(), "commit-without-tx", "{ctxs}: commit without an open transaction succeeded");
                    continue;
                }
                // every real caller has an epoch record pending
                let azks_id = Azks::get_full_binary_key_id(&DEFAULT_AZKS_KEY);
                if !pending.contains_key(&azks_id) {
                    let rec = DbRecord::Azks(Azks { latest_epoch: 100 + i as u64, num_nodes: 7 });
                    subj.set(rec.clone()).await.map_err(akd_err("set-err", &ctxs))?;
                    use akd::storage::Database;
                    ref_p.as_ref().unwrap().set(rec.clone()).await.unwrap();
                    pending.insert(azks_id.clone(), rec);
                }
                vdb.ctl.captured.lock().unwrap().clear();
                vdb.ctl.capture.store(true, Ordering::SeqCst);
                let n = subj.commit_transaction().await;
                vdb.ctl.capture.store(false, Ordering::SeqCst);
                let n = n.map_err(akd_err("commit-err", &ctxs))?;
                st.commits += 1;
                let cap = vdb.ctl.captured.lock().unwrap().clone();
                // the commit may use one or several writes; together, in order, they must be exactly the pending records
                ensure!(!cap.is_empty(), "commit-batches", "{ctxs}: commit wrote nothing to the database");
                let flat: Vec<DbRecord> = cap.iter().flatten().cloned().collect();
                let batch = &flat;
                ensure!(n as usize == pending.len() && batch.len() == pending.len(), "commit-count", "{ctxs}: commit wrote {} records (returned {n}), but {} distinct records were pending", batch.len(), pending.len());
                ensure!(matches!(batch.last(), Some(DbRecord::Azks(_))), "commit-azks-last", "{ctxs}: the epoch record is not the last record of the commit batch");
                ensure!(sorted(batch.clone()) == pending.values().cloned().collect::<Vec<_>>(), "commit-content", "{ctxs}: commit batch differs from the pending records (last write per key)");
                ref_c = ref_p.take().unwrap();
                vers_c = vers_p.clone();
                pending.clear();
                ensure!(!subj.is_transaction_active(), "tx-flag", "{ctxs}: transaction still active after commit");
            }
            Op::Rollback => {
                let r = subj.rollback_transaction();
                ensure!(r.is_ok() == in_tx, "rollback-result", "{ctxs}: rollback returned {r:?}");
                if in_tx {
                    st.rollbacks += 1;
                    ref_p = None;
                    vers_p = vers_c.clone();
                    pending.clear();
                    ensure!(!subj.is_transaction_active(), "tx-flag", "{ctxs}: transaction still active after rollback");
                }
            }
            _ if is_read(op) => {
                let refdb = if in_tx { ref_p.as_ref().unwrap().clone() } else { ref_c.clone() };
                let refm = StorageManager::new_no_cache(refdb);
                if in_tx {
                    st.in_tx_reads += 1;
                    if let Op::UserState { u, .. } | Op::UserVersions { users: u, .. } = op {
                        let us = if matches!(op, Op::UserState { .. }) { vec![user(*u)] } else { users_of(*u).into_iter().map(|l| l.0).collect() };
                        for un in us {
                            let pend_e: Vec<u64> = pending.values().filter_map(|r| if let DbRecord::ValueState(v) = r { (v.username.0 == un).then_some(v.epoch) } else { None }).collect();
                            let comm_e: Vec<u64> = vers_c.0.keys().filter(|(uu, _)| *uu == un).map(|(_, e)| *e).collect();
                            if pend_e.iter().any(|p| comm_e.iter().any(|c| c != p)) {
                                st.mixed_user_query += 1;
                            }
                        }
                    }
                }
                compare_read(op, &subj, &refm, &ctxs).await?;
            }
            _ => {}
        }
    }
    Ok(())
}

pub fn check(case: &Case, ctx: &mut Ctx) -> R {
    let mut st = Stats::default();
    let r = block_on(run_case(case, &mut st));
    ctx.count("in_tx_reads", st.in_tx_reads);
    ctx.count("commits", st.commits);
    ctx.count("rollbacks", st.rollbacks);
    ctx.count("in_tx_user_queries_with_db_and_pending_records_at_different_epochs", st.mixed_user_query);
    if matches!(case.cache, CacheKind::None) {
        ctx.class("uncached");
    } else {
        ctx.class("cached");
    }
    if st.mixed_user_query > 0 {
        ctx.nontrivial(fp_json(case));
        ctx.sample(case);
    }
    r
}

pub fn flag_strategy() -> impl Strategy<Value = Flag> {
    prop_oneof![any::<u8>().prop_map(Flag::SpecV), any::<u8>().prop_map(Flag::SpecE), any::<u8>().prop_map(Flag::Leq), Just(Flag::Max), Just(Flag::Min)]
}
pub fn rec_strategy() -> impl Strategy<Value = Rec> {
    prop_oneof![
        6 => (0u8..3, 0u8..8, 0u8..5).prop_map(|(u, e, val)| Rec::Vs { u, e, val }),
        2 => (0u8..4, any::<u8>()).prop_map(|(k, tag)| Rec::Node { k, tag }),
        1 => (0u8..9).prop_map(|epoch| Rec::Azks { epoch }),
    ]
}
pub fn read_strategy() -> impl Strategy<Value = Op> {
    prop_oneof![
        2 => (0u8..3, 0u8..8).prop_map(|(u, e)| Op::GetVs { u, e }),
        1 => (0u8..4).prop_map(|k| Op::GetNode { k }),
        1 => Just(Op::GetAzks),
        1 => proptest::collection::vec((0u8..3, 0u8..8), 1..5).prop_map(Op::BatchGetVs),
        1 => proptest::collection::vec(0u8..4, 1..4).prop_map(Op::BatchGetNode),
        5 => (0u8..3, flag_strategy()).prop_map(|(u, flag)| Op::UserState { u, flag }),
        2 => (0u8..3).prop_map(|u| Op::UserData { u }),
        4 => (1u8..8, flag_strategy()).prop_map(|(users, flag)| Op::UserVersions { users, flag }),
    ]
}
pub fn op_strategy() -> impl Strategy<Value = Op> {
    prop_oneof![
        12 => rec_strategy().prop_map(Op::Set),
        4 => proptest::collection::vec(rec_strategy(), 1..5).prop_map(Op::BatchSet),
        24 => read_strategy(),
        4 => Just(Op::Begin),
        2 => Just(Op::Commit),
        1 => Just(Op::Rollback),
    ]
}

pub fn run(eng: &mut Engine) {
    let max_ops = eng.tier.pick(40, 120);
    eng.assume("well-formed data only: per user, versions increase with epochs; a rewrite of an existing (user, epoch) record keeps its version");
    eng.assume("reference = plain uncached manager over a second in-memory database holding committed ∪ pending records; NotFound is the same as an empty answer");
    eng.prop_part(
        "tx_ops",
        "generated sequences of set / batch_set / get / batch_get / get_user_state (5 flags) / get_user_data / get_user_state_versions (5 flags) / begin / commit / rollback over 3 users x 8 epochs, 4 node keys and the epoch record, on cached and uncached managers; every read is compared with a shadow database; commit batches are captured and compared with the pending set; non-trivial = an in-transaction user-state query for a user with database AND pending records at different epochs; distinct by case",
        eng.tier.pick(400_000, 5_000_000),
        move || (prop_oneof![Just(CacheKind::None), Just(CacheKind::Default)], proptest::collection::vec(op_strategy(), 1..=max_ops)).prop_map(|(cache, ops)| Case { cache, ops }),
        check,
    );
}
