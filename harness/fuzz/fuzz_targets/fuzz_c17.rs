#![no_main]
// coverage-guided driver for C17: the fuzz input is the random stream of the property's own
// proptest strategy (pass-through RNG), the oracle is the property's own check function.
use libfuzzer_sys::fuzz_target;
fuzz_target!(|data: &[u8]| {
    akd_verif::fuzz::fuzz_one("C17", data);
});
