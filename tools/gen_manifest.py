#!/usr/bin/env python3
"""Generates /verif/MANIFEST.json from the table below (keeps it schema-valid)."""
import json, subprocess, sys

# id -> (category, design_ref, technique, text, note)
CHECKS = {
    "C01": ("exploration", "DESIGN.md §5 C01",
            "model-based PBT: generated publish histories vs independent reference model (own blake3 formulas + from-scratch trie), proptest with shrinking",
            "Generated multi-epoch publish histories (inserts, updates, re-submissions, repeated labels, empty/long labels and values, several VRF keys, cached/uncached, parallel/sequential insertion) are executed on the real Directory under both configurations and compared after every publish with an independent model of epoch number and root hash. Held on everything generated; no absence claim.",
            "Trusted: the ECVRF core shared by model and implementation (attacked separately in C18); blake3; the harness's own model."),
}

NOT_YET = "check under construction in this session (see DESIGN.md §5); not claimed until it runs and is sensitivity-tested"

ALL = ["C%02d" % i for i in range(1, 21)]


def main():
    hooks_commits = subprocess.run(["git", "-C", "/repo", "log", "--format=%H %s"], capture_output=True, text=True).stdout.splitlines()
    hook_shas = [l.split()[0] for l in hooks_commits if "verif hooks" in l]
    checks = []
    for pid in ALL:
        if pid not in CHECKS:
            continue
        cat, ref, tech, text, note = CHECKS[pid]
        checks.append({
            "property_id": pid,
            "quick_cmd": f"./check {pid} --tier quick",
            "thorough_cmd": f"./check {pid} --tier thorough",
            "evidence_file": f"/verif/evidence/{pid}.json",
            "replay_cmd_template": f"./check {pid} --replay {{path}}",
            "engine": "akd_verif",
            "level_claimed": {"category": cat, "text": text, "design_ref": ref},
            "level_note": note,
            "technique": tech,
        })
    na = [{"property_id": p, "reason": NOT_YET} for p in ALL if p not in CHECKS]
    m = {
        "version": 1,
        "setup_cmd": "./tools/setup.sh",
        "hooks": {
            "guard": "cargo feature verif_hooks (on crates akd and akd_core; off by default)",
            "enable": "the harness crate /verif/harness depends on /repo/akd and /repo/akd_core by path with features=[\"verif_hooks\", ...]; ./check rebuilds it with cargo build --release --offline",
            "baseline_off_cmd": "/verif/tools/baseline.sh",
            "source_commits": hook_shas,
            "add_only": True,
        },
        "engines": [{
            "name": "akd_verif",
            "path": "/verif/harness",
            "serves_properties": [c["property_id"] for c in checks],
            "kind_free_text": "Rust binary `check`: 16-worker seeded proptest TestRunner (shrinking, replay files), bounded-exhaustive enumerators, independent reference model, fault/capture/schedule database wrappers, deterministic manual-poll scheduler, adversarial prover; cargo-fuzz targets under harness/fuzz",
        }],
        "checks": checks,
        "notes": "All checks: exit 0 held / exit 1 + VIOLATION line / exit 2 inconclusive (build failure, watchdog). VERIF_SEED selects the PRNG stream; known findings in /verif/known_findings.json.",
        "not_applicable": na,
    }
    json.dump(m, open("/verif/MANIFEST.json", "w"), indent=1)
    print("wrote MANIFEST.json:", len(checks), "checks,", len(na), "not claimed")


if __name__ == "__main__":
    main()
