#!/usr/bin/env python3
"""Generates /verif/MANIFEST.json from the table below (keeps it schema-valid)."""
import json, subprocess, sys

# id -> (category, design_ref, technique, text, note)
CHECKS = {
    "C01": ("exploration", "DESIGN.md §5 C01",
            "model-based PBT: generated publish histories vs independent reference model (own blake3 formulas + from-scratch trie), proptest with shrinking",
            "Generated multi-epoch publish histories (inserts, updates, re-submissions, repeated labels, empty/long labels and values, several VRF keys, cached/uncached, parallel/sequential insertion) are executed on the real Directory under both configurations and compared after every publish with an independent model of epoch number and root hash. Held on everything generated; no absence claim.",
            "Trusted: the ECVRF core shared by model and implementation (attacked separately in C18); blake3; the harness's own model."),
    "C02": ("exploration", "DESIGN.md §5 C02",
            "model-based PBT: every lookup / batch lookup after every epoch verified with the real client verifier and compared with the model's (value, version, epoch)",
            "After every state-changing publish of a generated history (incl. 60-150-label batches and a 258-300-version label) every pool label (published or not) is looked up singly and in generated batches, through Directory and a fresh ReadOnlyDirectory; proofs are verified against the MODEL's root and must yield the model's latest state; unpublished labels must fail. Part faulty_and_lagging_reads: a lookup on a cached instance kept from an earlier epoch, and with every storage operation of the request failed in turn, must be an error or verify to the model at the epoch it names. Part lookups_during_publish: lookups / batch lookups on clones and read-only instances interleaved by the deterministic scheduler with 1-5 publishes; every non-error answer must verify against the epoch hash returned with it.",
            "Trusted: model (as C01); the client verifier lookup_verify is the unit under test together with the prover."),
    "C03": ("exploration", "DESIGN.md §5 C03",
            "model-based PBT over histories x HistoryParams (Complete, MostRecent N below/at/above the version count)",
            "For every published label after every epoch, Complete and MostRecent(N) histories are requested, verified with the same parameter against the model root, and compared with the model's newest-first version list (incl. a label with 258-300 versions: marker versions around the skip-list entry 256). Part faulty_and_lagging_reads as in C02, for key_history.",
            "Trusted: model (as C01)."),
    "C04": ("exploration", "DESIGN.md §5 C04",
            "model-based PBT: all epoch pairs of generated histories audited against the model's root hashes",
            "For generated histories all pairs 0<=s<e<=current are audited at the end (so most ranges end before the latest epoch), plus the newest step and the full range after every epoch and 9 invalid requests; audit_verify is fed the MODEL's roots. Part faulty_and_lagging_reads as in C02, for audit.",
            "Trusted: model roots; audit_verify (whose soundness is C09's subject)."),
    "C05": ("exploration", "DESIGN.md §5 C05",
            "PBT with an adversarial prover: constructed prefix-sharing leaf sets, every ancestor as anchor, 15+ mutations; soundness/completeness oracle = the leaf set + from-scratch model trie",
            "Leaf sets built to share prefixes of every length are inserted over 1-3 epochs; for members, bit-flipped non-members and random labels the honest proofs, a non-membership proof anchored at every path node, a membership proof of every path node, many mutations and previous-epoch material are verified; an accepted membership statement must be a true node, an accepted non-membership statement must be for a non-member with the deepest anchor.",
            "Adversary is structural (recombines real tree material); hash collisions out of scope. Ground truth from the harness's model trie."),
    "C06": ("exploration", "DESIGN.md §5 C06",
            "PBT with an adversarial lookup-proof builder holding the VRF key; single soundness oracle against the model's latest state",
            "On honest generated histories, lookup proofs for every superseded version (freshness proof anchored at every depth), altered fields, other labels' leaves, other epochs' material and field swaps are assembled and verified; an accepted proof must report the model's latest (value, version, epoch).",
            "Structural adversary with the secret key; no VRF forgery / collisions."),
    "C07": ("exploration", "DESIGN.md §5 C07",
            "PBT with an adversarial history-proof builder + dishonest trees (missing / late stale markers) built through the public API",
            "Truncations (with forged absence proofs at every anchor depth), gaps, duplicates, reorderings, substituted values/epochs, omitted/surplus/swapped marker proofs, cross-parameter verification and tombstones under both verifier modes; an accepted proof must equal the model's version list for the parameter; trees with a missing/late stale marker must make history verification of that label fail.",
            "Structural adversary with the secret key. One protocol-level known finding (epoch of a tombstoned version-1 entry is not authenticated under AllowMissingValues) is excluded by its exact shape and counted."),
    "C08": ("exploration", "DESIGN.md §5 C08",
            "bounded-exhaustive enumeration of (epoch, version pair, range) marker-set intersections + random u64 sampling + replay of pairs on real dishonest trees with the real verifiers",
            "All E<=48 (thorough 96), n!=m, admitted ranges are enumerated for history x history and complete-history x lookup; the absent/retired set of one proof must intersect the present/not-retired set of the other; sampled and all failing pairs are replayed on a real tree built by a dishonest server (generated creation schedules: one version per epoch, several versions in one epoch; a quarter of the histories with inner versions left out) and handed to key_history_verify / lookup_verify.",
            "What a proof 'shows' is derived from the verifier code and cross-checked on real trees; one protocol-level known finding (history(n) x lookup(m>n)) is excluded by a frozen reference signature."),
    "C09": ("exploration", "DESIGN.md §5 C09",
            "PBT with adversarial append-only proofs assembled from nodes of honest and dishonest trees; end hash chosen by the adversary (the auditor's own reconstruction); survival-analysis oracle",
            "For generated start sets and honest/dishonest end sets, honest frontiers (control), shadowing leaves, hidden replacements, node+descendant, duplicates, garbage label bits, root-as-element, dishonest frontiers and moved/dropped elements are verified under three end-hash choices; if accepted, every start leaf must still be committed unchanged by the end structure; overlapping node sets, inconsistent list lengths and any altered root hash must be rejected.",
            "Ground truth by walking the reconstructed end tree and matching nodes of known model tries; structural adversary."),
    "C10": ("fault_enumeration", "DESIGN.md §5 C10",
            "fault injection: for generated histories EVERY storage-operation index of the targeted publish is failed in turn (single fault and outage) via a Database wrapper; oracle = model + database snapshot equality + retry",
            "For each generated short history, manager/parallelism choice and storage behaviour (operations returning at once, or yielding to the runtime so that spawned insertion tasks interleave) the operation count K of the targeted publish is measured, then each k<K is failed on a re-executed copy; the call must return Err, the same instance must report the previous epoch/hash with no open transaction and serve verifying proofs for the previous state, the database must equal its pre-publish snapshot at quiescence, and the retry must produce the model's next pair.",
            "Faults are non-NotFound storage errors on the in-memory database; complete per targeted publish, sampled over histories."),
    "C11": ("fault_enumeration", "DESIGN.md §5 C11",
            "crash-point enumeration: the commit batch is captured and every prefix (two orders) + random subsets applied to a copy of the database; fresh reader instances compared with the model at the previous epoch",
            "For generated histories the last publish's commit batch is captured; for every prefix in key order and reverse order and generated subsets of the non-epoch records, fresh Directory/ReadOnlyDirectory instances must report the previous epoch and serve lookups/histories/audits equal to the model at that epoch; with the epoch record applied everything equals the new epoch.",
            "Record-level atomicity assumed (as the code documents); in-memory database."),
    "C12": ("exploration", "DESIGN.md §5 C12",
            "deterministic-schedule exploration: 2-3 concurrent publish futures polled by hand at storage-operation yield points; bounded-preemption enumeration + random schedules; oracle = sequential model replay",
            "Each scenario's publishes run under all schedules with <=2 preemptions (thorough 3) plus generated random schedules; successful calls must have distinct consecutive epochs reproducible by replaying their batches on the model in epoch order, failed calls must leave no trace, audits must verify against the returned hashes.",
            "Interleavings at storage-operation granularity with tree parallelism disabled; thread-level races only in the non-replayable stress mode."),
    "C13": ("exploration", "DESIGN.md §5 C13",
            "deterministic-schedule exploration of readers vs writer / poller / flush, plus lagging-instance scenarios; oracle = model at the epoch the reply names",
            "Reader operations (lookup, batch lookup, history, audit, epoch hash) on the same instance, a clone and separate cached/uncached read-only instances are interleaved with 1-5 publishes, the change poller and a change-signal listener (scheduler-controlled background actors, virtual time) and flushes; every reply is Err or names a published (epoch, root) and verifies to the model's state at that epoch; after the n-th change signal the polled instance must answer from an epoch >= creation epoch + n.",
            "Same schedule granularity as C12."),
    "C14": ("exploration", "DESIGN.md §5 C14",
            "differential / metamorphic PBT: same history + query script under a cross product of parallelism, cache, restart and read-only configurations and TWO feature builds; transcripts must be identical",
            "Canonical transcripts (epoch hashes, verification outcomes, verified results) of the same generated history are compared across parallelism options, cache kinds (incl. 2 ms lifetime with real pauses and a tiny memory limit), restart points, the read-only wrapper, both configurations, and the binaries built with and without preload/parallel-VRF features; permuted and split insertions must give the same tree.",
            "Real-time pauses affect only hit/miss mix; multi-thread runtime for parallel insertion."),
    "C15": ("exploration", "DESIGN.md §5 C15",
            "stateful PBT (op sequences + interpreter) with a differential twin: every read compared with a shadow database holding committed ∪ pending; commit batches captured",
            "Generated sequences of writes, all read kinds (all five user-state flags, bulk versions), begin/commit/rollback on cached and uncached managers; each read must equal the same read on a plain manager over a shadow database; commit must hand the database exactly the pending records with the epoch record last; rollback discards; nested begin refused.",
            "Well-formed data only (versions increase with epochs; rewrites keep the version), as the property states."),
    "C16": ("exploration", "DESIGN.md §5 C16",
            "stateful PBT against a database mirror with real-time pauses, rejected writes, tiny memory limits and flushes; deterministic-schedule concurrency variant",
            "Generated op sequences through one cached manager with generated lifetime / memory limit / clean frequency, writes the database rejects, transactions, flushes and real pauses; every read must equal the mirror of what the database accepted (or the pending value); concurrent variant: after quiescence every key read through the manager equals the database.",
            "Timing only affects hit/miss counters in the evidence, never the verdict."),
    "C17": ("exploration", "DESIGN.md §5 C17",
            "exhaustive enumeration (all ordered pairs of labels <=10 bits, all small sets) + PBT over 0..256-bit labels at byte boundaries; oracle = Vec<bool> bit strings; sorted vs unsorted set operations via hooks",
            "All 4.2M ordered pairs of labels of length 0..10 and all sets of <=3 labels of length <=4 are checked exhaustively; generated long labels/sets concentrate on byte boundaries and adversarial patterns; set partition / lcp / contains_prefix are evaluated as BinarySearchable and Unsorted through the verif_hooks wrappers.",
            "Domain: normalised labels and the documented empty-label constants; documented precondition of partition respected."),
    "C18": ("exploration", "DESIGN.md §5 C18",
            "round-trip + metamorphic PBT over keys/labels/freshness/versions; full 640-bit single-flip sweep of proof bytes",
            "For generated tuples the proof must verify and yield the node label the server uses (single, batch, repeated evaluation); altering exactly one input, or any bit of the proof, must fail or yield the same node label; different secrets must give different node labels, nonces and commitments.",
            "RFC 9381 arithmetic itself trusted to curve25519-dalek; attacked only through the API."),
    "C19": ("exploration", "DESIGN.md §5 C19",
            "round-trip PBT on real proofs + mutation PBT on encodings + coverage-guided libFuzzer target (decode, re-encode, verify-equivalence oracle inside the target)",
            "Real lookup/history/append-only proofs and components are converted to protobuf bytes and back (identity, same verification result); truncated, bit-flipped, spliced, field-deleted and arbitrary encodings must never panic and must decode to Err or to a proof whose verification is Err or equals the original's result; AuditBlob names and blobs likewise.",
            "The wasm client's private functions are reproduced call for call."),
    "C20": ("exploration", "DESIGN.md §5 C20",
            "metamorphic PBT: the same history run with and without tombstoning, compared with each other and the model",
            "Control and subject runs of a generated history (1-2 tombstone operations at generated points, labels, cut-offs, further publishes) must agree on every epoch hash, audit proof, the label's lookup and all other labels' proofs; the label's history verifies under AllowMissingValues with exactly the tombstoned values empty, and Default mode rejects exactly the histories containing a tombstoned entry.",
            "Cut-off before the label's latest update, as the property states."),
}

DONE = ["C01", "C02", "C03", "C04", "C05", "C06", "C07", "C08", "C09", "C10", "C11", "C12", "C13", "C14", "C15", "C16", "C17", "C18", "C19", "C20"]

NOT_YET = "check under construction in this session (see DESIGN.md §5); not claimed until it runs and is sensitivity-tested"

ALL = ["C%02d" % i for i in range(1, 21)]


def main():
    hooks_commits = subprocess.run(["git", "-C", "/repo", "log", "--format=%H %s"], capture_output=True, text=True).stdout.splitlines()
    hook_shas = [l.split()[0] for l in hooks_commits if "verif hooks" in l]
    checks = []
    for pid in ALL:
        if pid not in DONE:
            continue
        cat, ref, tech, text, note = CHECKS[pid]
        checks.append({
            "property_id": pid,
            "quick_cmd": f"./check {pid} --tier quick",
            "thorough_cmd": f"./check {pid} --tier thorough",
            "evidence_file": f"/verif/evidence/{pid}.json",
            "replay_cmd_template": f"./check {pid} --replay {{path}}",
            "engine": "akd_verif",
            "level_claimed": {"category": cat, "text": text, "design_ref": ref},
            "level_note": note,
            "technique": tech,
        })
    na = [{"property_id": p, "reason": NOT_YET} for p in ALL if p not in DONE]
    m = {
        "version": 1,
        "setup_cmd": "./tools/setup.sh",
        "hooks": {
            "guard": "cargo feature verif_hooks (on crates akd and akd_core; off by default)",
            "enable": "the harness crate /verif/harness depends on /repo/akd and /repo/akd_core by path with features=[\"verif_hooks\", ...]; ./check rebuilds it with cargo build --release --offline",
            "baseline_off_cmd": "/verif/tools/baseline.sh",
            "source_commits": hook_shas,
            "add_only": True,
        },
        "engines": [{
            "name": "akd_verif",
            "path": "/verif/harness",
            "serves_properties": [c["property_id"] for c in checks],
            "kind_free_text": "Rust binary `check`: 16-worker seeded proptest TestRunner (shrinking, replay files), bounded-exhaustive enumerators, independent reference model, fault/capture/schedule database wrappers, deterministic manual-poll scheduler, adversarial prover; cargo-fuzz targets under harness/fuzz",
        }],
        "checks": checks,
        "notes": "All checks: exit 0 held / exit 1 + VIOLATION line / exit 2 inconclusive (build failure, watchdog). VERIF_SEED selects the PRNG stream; known findings in /verif/known_findings.json.",
        "not_applicable": na,
    }
    json.dump(m, open("/verif/MANIFEST.json", "w"), indent=1)
    print("wrote MANIFEST.json:", len(checks), "checks,", len(na), "not claimed")


if __name__ == "__main__":
    main()
