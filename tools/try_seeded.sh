#!/bin/bash
# usage: tools/try_seeded.sh <patch.diff> <check ids...>   applies a seeded change to /repo, runs quick checks, reverts
P="$1"; shift
cd /repo && git diff --quiet || { echo "repo dirty"; exit 2; }
git apply "$P" || { echo "patch does not apply"; exit 2; }
for c in "$@"; do
  OUT=$(cd /verif && VERIF_SEED=${VERIF_SEED:-11} timeout 3000 ./check $c --tier quick 2>&1 | grep -v "^proptest")
  echo "SEEDED $(basename $(dirname $P)) check $c: violations=$(echo "$OUT" | grep -c '^VIOLATION') :: $(echo "$OUT" | grep -m1 'signature=' | cut -c1-260)"
done
git -C /repo checkout -- . ; rm -rf /verif/replays/*/
