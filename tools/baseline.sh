#!/bin/bash
# Runs the repository's pinned test suite with the verif_hooks guard OFF (BASELINE.json command).
cd /repo/$(cat /w/out/cargo_root.txt 2>/dev/null || echo .) || exit 2
export CARGO_NET_OFFLINE=true
if [ -f /w/lib/nextest.toml ] && cargo nextest --version >/dev/null 2>&1; then
  exec cargo nextest run --workspace --no-fail-fast --tool-config-file pb:/w/lib/nextest.toml --profile pb --test-threads 8 --offline
else
  exec cargo test --workspace --no-fail-fast --offline
fi
