#!/bin/bash
# usage: tools/confirm_seeded.sh <worktree dir> <out dir> <demo test filter>
# Confirms a seeded change independently: demo passes without patch, fails with patch; existing tests pass with patch.
WT="$1"; OUT="$2"; FILT="$3"
export CARGO_TARGET_DIR="$WT/target" CARGO_NET_OFFLINE=true
cd "$WT" || exit 2
git reset -q; git checkout -q -- . ; git clean -qfd -e target
git apply "$OUT/demo.diff" || { echo "demo.diff does not apply"; exit 2; }
echo "== demo WITHOUT patch (expect pass)"
cargo test -p akd -p akd_core --offline "$FILT" 2>&1 | grep -E "^test result|^test .*(FAILED|ok)$|error\[" | grep -v " 0 passed; 0 failed" | tail -8
git apply "$OUT/patch.diff" || { echo "patch.diff does not apply"; exit 2; }
echo "== demo WITH patch (expect failure)"
cargo test -p akd -p akd_core --offline "$FILT" 2>&1 | grep -E "^test result|^test .*(FAILED|ok)$|error\[" | grep -v " 0 passed; 0 failed" | tail -8
git apply -R "$OUT/demo.diff"
echo "== existing tests WITH patch only (expect all pass)"
cargo test -p akd -p akd_core --offline 2>&1 | grep -E "^test result|FAILED|error\[" | tail -8
git reset -q; git checkout -q -- . ; git clean -qfd -e target
