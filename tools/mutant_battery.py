#!/usr/bin/env python3
"""Runs a battery of hand-written single-site mutants (DESIGN §5 'M' lists) through tools/mutant.sh and
writes /verif/target/mutant_battery.log. Must not run concurrently with anything else that edits /repo."""
import subprocess, sys
M = [
 ("akd/src/directory.rs", "ValueState::new(akd_label, akd_value, version, node_label, next_epoch);", "ValueState::new(akd_label, akd_value, version, node_label, current_epoch);", "C02 C03"),
 ("akd/src/append_only_zks.rs", "current_node = new_leaf_node::<TC>(node.label, &node.value, epoch);", "current_node = new_leaf_node::<TC>(node.label, &node.value, epoch - 1);", "C01"),
 ("akd/src/directory.rs", "VersionFreshness::Stale => TC::stale_azks_value(),", "VersionFreshness::Stale => TC::compute_fresh_azks_value(&commitment_key, &node_label, version, &akd_value),", "C01"),
 ("akd/src/directory.rs", "if existing_akd_value == akd_value {\n                            // Skip this", "if false && existing_akd_value == akd_value {\n                            // Skip this", "C01"),
 ("akd_core/src/configuration/whatsapp_v1.rs", "Self::hash(&[left_val.0.to_vec(), left_label.to_vec()].concat()),\n                Self::hash(&[right_val.0.to_vec(), right_label.to_vec()].concat()),", "Self::hash(&[right_val.0.to_vec(), right_label.to_vec()].concat()),\n                Self::hash(&[left_val.0.to_vec(), left_label.to_vec()].concat()),", "C01 C05"),
 ("akd/src/directory.rs", ".get_user_state(&akd_label, ValueStateRetrievalFlag::LeqEpoch(epoch))", ".get_user_state(&akd_label, ValueStateRetrievalFlag::MaxEpoch)", "C11 C13"),
 ("akd/src/directory.rs", "HistoryParams::MostRecent(n) => user_data.into_iter().take(n).collect::<Vec<_>>(),", "HistoryParams::MostRecent(n) => user_data.into_iter().take(n + 1).collect::<Vec<_>>(),", "C03"),
 ("akd/src/directory.rs", "user_data.retain(|vs| vs.epoch <= current_epoch);", "user_data.retain(|vs| vs.epoch <= current_epoch + 1);", "C11 C13"),
 ("akd/src/append_only_zks.rs", "if node.get_latest_epoch() <= start_epoch {\n            if node.node_type == TreeNodeType::Root {", "if node.get_latest_epoch() < start_epoch {\n            if node.node_type == TreeNodeType::Root {", "C04"),
 ("akd/src/append_only_zks.rs", "if node.min_descendant_epoch > end_epoch {\n            return Ok((unchanged, leaves));", "if node.min_descendant_epoch >= end_epoch {\n            return Ok((unchanged, leaves));", "C04"),
 ("akd/src/tree_node.rs", "min(self.min_descendant_epoch, child_node.min_descendant_epoch);", "max(self.min_descendant_epoch, child_node.min_descendant_epoch);", "C04"),
 ("akd_core/src/verify/base.rs", "if !proof.longest_prefix.is_prefix_of(&proof.label) {", "if false && !proof.longest_prefix.is_prefix_of(&proof.label) {", "C05"),
 ("akd_core/src/verify/lookup.rs", "VersionFreshness::Stale,\n        proof.version,\n        &proof.freshness_vrf_proof,", "VersionFreshness::Fresh,\n        proof.version + 1,\n        &proof.freshness_vrf_proof,", "C06 C02"),
 ("akd_core/src/verify/history.rs", "if curr_version + 1 != prev_version {", "if curr_version >= prev_version {", "C07"),
 ("akd_core/src/verify/history.rs", "            // Make sure the start version is 1\n            if start_version != 1 {", "            // Make sure the start version is 1\n            if false && start_version != 1 {", "C07"),
 ("akd_core/src/verify/history.rs", "if update_proof.epoch > previous_update_epoch {", "if false && update_proof.epoch > previous_update_epoch {", "C07"),
 ("akd/src/auditor.rs", "if proof.epochs.len() != proof.proofs.len() {", "if proof.epochs.len() < proof.proofs.len() {", "C09"),
 ("akd/src/directory.rs", "            let _ = self.storage.rollback_transaction();\n            // bubble up the err\n            return Err(err);", "            // bubble up the err\n            return Err(err);", "C10"),
 ("akd/src/storage/manager/mod.rs", "            for transaction_record in transaction_records.into_iter() {\n                map.insert(transaction_record.epoch, transaction_record);\n            }", "            for transaction_record in transaction_records.into_iter().skip(1) {\n                map.insert(transaction_record.epoch, transaction_record);\n            }", "C15"),
 ("akd/src/storage/transaction.rs", "ValueStateRetrievalFlag::MinEpoch => intermediate.into_iter().next(),", "ValueStateRetrievalFlag::MinEpoch => intermediate.into_iter().next_back(),", "C15"),
 ("akd/src/storage/cache/high_parallelism.rs", "        self.map.clear();\n        *(self.azks.write().await) = None;", "        self.map.clear();", "C16 C13"),
 ("akd/src/storage/manager/mod.rs", "if value_state.epoch <= epoch && value_state.value.0 != crate::TOMBSTONE {", "if value_state.epoch < epoch && value_state.value.0 != crate::TOMBSTONE {", "C20"),
 ("akd_core/src/proto/mod.rs", "marker_vrf_proof: Some(input.marker_vrf_proof.clone()),", "marker_vrf_proof: Some(input.freshness_vrf_proof.clone()),", "C19"),
 ("akd_core/src/configuration/experimental.rs", "                &freshness_bytes,\n                &version.to_be_bytes(),", "                &version.to_be_bytes(),", "C18 C01"),
 ("akd/src/directory.rs", "                    self.storage.flush_cache().await;\n                    #[cfg(feature = \"tracing_instrument\")]", "                    #[cfg(feature = \"tracing_instrument\")]", "C13"),
 ("akd_core/src/types/node_label/mod.rs", "if self.get_len() >= other.get_len() {\n            return PrefixOrdering::Invalid;", "if self.get_len() > other.get_len() {\n            return PrefixOrdering::Invalid;", "C17"),
 ("akd/src/append_only_zks.rs", "PrefixOrdering::WithZero | PrefixOrdering::Invalid => true,\n                        PrefixOrdering::WithOne => false,", "PrefixOrdering::WithZero => true,\n                        PrefixOrdering::WithOne | PrefixOrdering::Invalid => false,", "C17"),
 ("akd/src/storage/manager/mod.rs", "    pub fn begin_transaction(&self) -> bool {\n        let started = self.transaction.begin_transaction();", "    pub fn begin_transaction(&self) -> bool {\n        let started = self.transaction.begin_transaction() || true;", "C15"),
 ("akd_core/src/utils.rs", "        if start_version & shift != 0 {\n            let shift_mask = (shift - 1) | shift;", "        if i > 0 && start_version & shift != 0 {\n            let shift_mask = (shift - 1) | shift;", "C08"),
 ("akd/src/append_only_zks.rs", "                .filter(|node| azks_element_set.contains_prefix(&node.label))", "                .filter(|node| !azks_element_set.contains_prefix(&node.label))", "C14 C01"),
]
out = open('/verif/target/mutant_battery.log', 'a')
only = sys.argv[1:] 
for i, (f, old, new, checks) in enumerate(M):
    if only and str(i) not in only:
        continue
    r = subprocess.run(['/verif/tools/mutant.sh', f, old, new] + checks.split(), capture_output=True, text=True)
    line = f"#{i} " + r.stdout.replace('\n\n', '\n').strip()
    print(line, flush=True)
    out.write(line + '\n'); out.flush()
