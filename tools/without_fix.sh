#!/bin/bash
# usage: tools/without_fix.sh <grep pattern of a fix: commit subject> <check id> [seed]
# temporarily reverts one fix commit in /repo's working tree, runs the quick check, restores.
set -u
PAT="$1"; C="$2"; SEED="${3:-0}"
cd /repo || exit 2
git diff --quiet || { echo "repo dirty"; exit 2; }
SHA=$(git log --format=%H --grep="$PAT" | head -1)
[ -z "$SHA" ] && { echo "no such commit"; exit 2; }
git revert --no-commit "$SHA" >/dev/null 2>&1 || { echo "revert failed"; git revert --abort 2>/dev/null; git checkout -- .; exit 2; }
( cd /verif && VERIF_SEED=$SEED ./check "$C" --tier quick 2>&1 | grep -v "^proptest" | cut -c1-400 | grep -A1 -E "^VIOLATION|^C[0-9]+ tier" )
git revert --abort 2>/dev/null || { git reset -q --hard HEAD; }
git status --short
