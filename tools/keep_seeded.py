#!/usr/bin/env python3
"""usage: keep_seeded.py <Cxx> <name> <needs> <caught_by> <signature>  -- copies /tmp/wt/<Cxx>-out into /verif/seeded/<Cxx>-<name>/ with meta.json"""
import sys, json, shutil, os, subprocess
cid, name, needs, caught, sig = sys.argv[1:6]
src = f"/tmp/wt/{cid}-out"
dst = f"/verif/seeded/{cid}-{name}"
os.makedirs(dst, exist_ok=True)
for f in ["patch.diff", "demo.diff", "NOTES.md", "confirm.log"]:
    if os.path.exists(f"{src}/{f}"):
        shutil.copy(f"{src}/{f}", f"{dst}/{f}")
head = subprocess.run(["git", "-C", "/repo", "rev-parse", "--short", "HEAD"], capture_output=True, text=True).stdout.strip()
meta = {
    "property": cid,
    "origin": "independent sub-agent given only the property text and a scratch worktree of /repo (nothing from /verif)",
    "breaks": open(f"{src}/PROPERTY.txt").read().split("\n")[0],
    "needs_to_manifest": needs,
    "applies_to_repo_commit": head,
    "confirmed_by_me": "tools/confirm_seeded.sh in the scratch worktree: demonstration passes without patch, fails with patch; cargo test -p akd -p akd_core passes with the patch alone (see confirm.log)",
    "ran_against_checks": f"tools/try_seeded.sh {dst}/patch.diff {caught.split(',')[0].split()[0]} (git -C /repo apply, ./check --tier quick, git -C /repo checkout -- .)",
    "caught_by": caught,
    "violation_signature": sig,
}
json.dump(meta, open(f"{dst}/meta.json", "w"), indent=1)
print("kept", dst)
