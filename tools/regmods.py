#!/usr/bin/env python3
# regenerates harness/src/props/mod.rs from the c??.rs files present
import glob, os
ids = sorted(os.path.basename(f)[:-3] for f in glob.glob('/verif/harness/src/props/c[0-9][0-9].rs'))
s = 'use crate::engine::Engine;\npub mod readfaults;\n' + ''.join(f'pub mod {i};\n' for i in ids)
s += '\npub fn run(id: &str, eng: &mut Engine) -> bool {\n    match id {\n' + ''.join(f'        "{i.upper()}" => {i}::run(eng),\n' for i in ids) + '        _ => return false,\n    }\n    true\n}\n'
open('/verif/harness/src/props/mod.rs', 'w').write(s)
print(ids)
