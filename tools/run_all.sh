#!/bin/bash
# runs every check's quick (or $1) tier once; prints exit code and time per check
TIER=${1:-quick}
cd /verif
for i in $(seq -w 1 20); do
  c=C$i; t0=$(date +%s)
  ./check $c --tier $TIER > /verif/target/run_$c.log 2>&1; rc=$?
  echo "$c rc=$rc $(( $(date +%s) - t0 ))s $(grep -c '^VIOLATION' /verif/target/run_$c.log) violations $(grep -c '^KNOWN-FINDING' /verif/target/run_$c.log) known"
done
