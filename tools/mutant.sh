#!/bin/bash
# usage: tools/mutant.sh <file-in-repo> <python-replace-old> <python-replace-new> <check ids...>
# applies a textual mutation to /repo's working tree, runs the quick checks, restores the tree.
set -u
F="$1"; OLD="$2"; NEW="$3"; shift 3
cd /repo || exit 2
if ! git diff --quiet; then echo "repo dirty, refusing"; exit 2; fi
python3 - "$F" "$OLD" "$NEW" <<'PY' || { echo "MUTATION-NOT-APPLIED"; exit 3; }
import sys
f,old,new=sys.argv[1:4]
s=open(f).read()
if s.count(old)<1: sys.exit(1)
open(f,'w').write(s.replace(old,new,1))
PY
for c in "$@"; do
  OUT=$(cd /verif && VERIF_SEED=${VERIF_SEED:-7} timeout 1500 ./check $c --tier quick 2>&1 | grep -v "^proptest")
  RC=$?
  V=$(echo "$OUT" | grep -c "^VIOLATION")
  echo "MUTANT [$F: '$OLD' -> '$NEW'] check $c: violations=$V $(echo "$OUT" | grep -m1 'signature=' | cut -c1-220) $(echo "$OUT" | grep -m1 'BUILD-FAILED')"
done
git -C /repo checkout -- . 
rm -rf /verif/replays/*/ 2>/dev/null
