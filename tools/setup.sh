#!/bin/bash
# MANIFEST.setup_cmd: build the harness (feature sets A and B) offline from files on disk.
set -e
cd /verif
export CARGO_NET_OFFLINE=true
mkdir -p /verif/target /verif/evidence /verif/replays
( cd harness && CARGO_TARGET_DIR=/verif/target/a cargo build --release )
( cd harness && CARGO_TARGET_DIR=/verif/target/b cargo build --release --no-default-features )
echo "setup ok"
